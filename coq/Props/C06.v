(** * C06: integral-basis computation (src/integral_basis/{mod,round2}.rs)
    Theorems about the model entry points of coq/Model/Round2.v ([find_integral_basis], [one_step]) and
    the loops they are made of.  An order is its stored rational basis ([qmat]).
    Status (later sections of this file supersede the first-wave list): the Round 2 step maps orders to orders
    and never panics (third wave), a fixed point of the step is p-maximal (Pohst-Zassenhaus) and the result is the
    maximal order (fourth wave), for monic and non-monic f (fifth wave: the starting order is a ring).
    NOT proved (see vp/props/c06.py): identification with the integral closure / field discriminant via
    embeddings, independence of the generator. *)
From RNT.Model Require Import Base Poly LinAlg Order Round2.
From RNT.Model Require Elementary.
From RNT.Refine Require Import Round2Basic Round2Index Round2Lattice Round2Det Round2Fuel.
From Coq Require Import QArith Qcanon Znumtheory.
Open Scope Z_scope.

(** [P] degree 1: for every linear f = c1 x + c0 (c1 <> 0), in both build profiles, the result is the
    starting order, whose stored basis is [[1]] (no prime is visited: the discriminant is 1). *)
Theorem find_integral_basis_deg1 : forall m c0 c1,
  c1 <> 0 ->
  exists o, find_integral_basis m [c0; c1] = Done o /\ non_monic_initial_order [c0; c1] = Done o
            /\ qvals o = [[1#1]]%Q.
Proof. exact Round2Basic.find_integral_basis_deg1. Qed.

Example deg1_example : exists o, find_integral_basis Checked [5; 7] = Done o /\ qvals o = [[1#1]]%Q.
Proof. eexists. split; vm_compute; reflexivity. Qed.

(** [P] find_integral_basis_fixpoint (loop structure).  When the driver returns [O]: the starting
    order, its discriminant and the trial factorisation of |disc| were computed, and [O] is the end of a
    chain of [while]-loop runs, one per prime power [(p, e)] of the factorisation in order
    ([primes_run]); in particular [O] is reachable from the starting order by finitely many Round 2
    steps.  [prime_run m f p e o hs e' o']: the run at [p] from exponent [e] and order [o] performs the
    steps with results [howmany = hs] and ends with exponent [e'] and order [o']. *)
Theorem find_integral_basis_fixpoint : forall m f O,
  find_integral_basis m f = Done O ->
  exists o0 disc fac,
    non_monic_initial_order f = Done o0 /\ order_disc m o0 f = Done disc /\
    Elementary.trial_factorize (Z.abs disc) = Done fac /\
    primes_run m f fac o0 O /\ reachable f o0 O.
Proof. exact Round2Basic.find_integral_basis_fixpoint. Qed.

(** [P] the exit condition of each run: the remaining exponent is < 2, or the last step, taken on an
    order reachable from the one the run started with, returned [howmany = 0] (index 1) *)
Theorem prime_run_exit : forall m f p e o hs e' o',
  prime_run m f p e o hs e' o' ->
  e' < 2 \/ (2 <= e' /\ exists ol, reachable f o ol /\ one_step f ol p = Done (o', 0)).
Proof. exact Round2Basic.prime_run_exit. Qed.

(** [P] every run is a chain of Round 2 steps *)
Theorem prime_run_reachable : forall m f p e o hs e' o',
  prime_run m f p e o hs e' o' -> reachable f o o'.
Proof. exact Round2Basic.prime_run_reachable. Qed.

(** [P] dev profile: the exponent is lowered by twice the sum of the [howmany]s, without wrap-around *)
Theorem prime_run_checked_sum : forall f p e o hs e' o',
  prime_run Checked f p e o hs e' o' ->
  e' = e - 2 * fold_right Z.add 0 hs /\ Forall (fun h => 0 <= h) hs /\ (0 <= e -> 0 <= e').
Proof. exact Round2Basic.prime_run_checked_sum. Qed.

(** [P] dev profile: the fuel given to the [while] loop suffices (it runs out only if a step does) *)
Theorem prime_loop_fuel_ok : forall f p o e,
  (forall o, one_step f o p <> OutOfFuel) -> prime_loop (prime_fuel e) Checked f o p e <> OutOfFuel.
Proof. exact Round2Basic.prime_loop_fuel_ok. Qed.

(** [lower_from deg 0 o]: [o] is a stored basis as [Order::from_basis] / [hnf_reduce] produces them: [deg] rows of
    length [deg], zero right of the diagonal, positive diagonal.  The starting order and every result of
    [one_step] are of this kind ([non_monic_lower], [one_step_index] below). *)

(** [P] one_step_index: on such a basis, for p > 0 and non-constant f, the step returns [howmany >= 0] with
    [index(new, old) = p ^ howmany] exactly (all the [assert_eq!(index % p, 0)] passed and the index is
    positive), and the new basis is again of this kind. *)
Theorem one_step_index : forall f o p o' h deg,
  length f = S deg -> (1 <= deg)%nat -> lower_from deg 0 o -> 0 < p ->
  one_step f o p = Done (o', h) ->
  order_index o' o = Done (p ^ h) /\ 0 <= h /\ lower_from deg 0 o'.
Proof. exact Round2Det.one_step_index. Qed.

Theorem non_monic_lower : forall f deg o0,
  length f = S deg -> (1 <= deg)%nat -> non_monic_initial_order f = Done o0 -> lower_from deg 0 o0.
Proof. exact Round2Det.non_monic_lower. Qed.

(** [P] for an arbitrary input basis (any shape): [howmany >= 0] and, when the computed index is positive,
    it equals [p ^ howmany] *)
Theorem one_step_index_any : forall f o p o' h,
  0 < p -> one_step f o p = Done (o', h) ->
  exists index, order_index o' o = Done index /\ 0 <= h /\
    (1 <= index -> index = p ^ h) /\ (index < 1 -> h = 0).
Proof. exact Round2Index.one_step_index_partial. Qed.

(** [P] disc(old) = disc(new) * index^2 whenever [index] and the two [discriminant] calls return *)
Theorem disc_index : forall m discf f o1 o2 i d1 d2,
  order_index o2 o1 = Done i ->
  order_discriminant m discf o1 f = Done d1 ->
  order_discriminant m discf o2 f = Done d2 ->
  d1 = d2 * i * i.
Proof. exact Round2Index.disc_index. Qed.

(** [P] the data returned by the entry point [ib_find] (basis, discriminant, index over the starting order):
    disc(start) = disc(O) * index^2 *)
Theorem ib_find_disc_index : forall m f O d i,
  ib_find m f = Done (O, d, i) ->
  exists o0 d0,
    find_integral_basis m f = Done O /\ non_monic_initial_order f = Done o0 /\
    order_disc m o0 f = Done d0 /\ order_disc m O f = Done d /\ order_index O o0 = Done i /\
    d0 = d * i * i.
Proof. exact Round2Det.ib_find_disc_index. Qed.

(** [P] ... and the index is a positive integer (non-constant f) *)
Theorem ib_find_index_pos : forall m f O d i deg,
  length f = S deg -> (1 <= deg)%nat -> ib_find m f = Done (O, d, i) -> 1 <= i.
Proof. exact Round2Det.ib_find_index_pos. Qed.

(** [C] prime_loop_no_underflow_partial: the u64 update [e -= 2 * howmany] never overflows in the dev profile, so
    that the only panics of the [while] loop are those of [one_step] -- PROVIDED every lattice produced on
    the way has an integral discriminant (the assertion of [Order::discriminant] would pass on it: it is an
    order; that is the mathematical content not proved here).  [p ^ e * r], p prime not dividing r, is the
    discriminant of the stored order [o] the loop starts with.
    Full statement: the same without the integrality hypothesis (needs: the ring of multipliers of the
    p-radical is a ring containing O, Pohst-Zassenhaus). *)
Theorem prime_loop_no_underflow_partial : forall discf f p r deg,
  length f = S deg -> (1 <= deg)%nat ->
  prime p -> rel_prime p r ->
  forall fuel o e t,
  0 <= e < two64 -> lower_from deg 0 o ->
  order_discriminant Checked discf o f = Done (p ^ e * r) ->
  (forall o1 o2 h, reachable_at f p o o1 -> one_step f o1 p = Done (o2, h) ->
     exists d2, order_discriminant Checked discf o2 f = Done d2) ->
  prime_loop fuel Checked f o p e = Panic t ->
  exists o1, reachable_at f p o o1 /\ one_step f o1 p = Panic t.
Proof. exact Round2Det.prime_loop_no_underflow. Qed.

(** [P] one_step_contains.  [in_spanQ deg v B]: there are integers c_1..c_n (n = #rows of B) with
    v_j = sum_k c_k B[k][j] for all j < deg ([combQ c B j] is that sum).  For a non-constant f of degree
    [deg] and an input order given by a [deg x deg] rational basis, the lattice returned by [one_step] is
    again a [deg x deg] basis and contains every basis row of the input order.  (Uses [hnf_new_correct]
    of the HNF development for [HNF::new] on [U_p; p I] and inside [Order::from_basis].) *)
Theorem one_step_contains : forall f o p o' hh deg,
  length f = S deg -> (1 <= deg)%nat ->
  length o = deg -> Forall (fun r => length r = deg) o ->
  one_step f o p = Done (o', hh) ->
  length o' = deg /\ Forall (fun r => length r = deg) o' /\
  forall i, (i < deg)%nat -> in_spanQ deg (nth i o []) o'.
Proof. exact Round2Lattice.one_step_contains. Qed.

(** [P] find_integral_basis_contains: the returned order contains the starting order
    Z[theta] cap Z[1/theta] (every basis row of the latter is an integer combination of its rows). *)
Theorem find_integral_basis_contains : forall m f deg O o0,
  length f = S deg -> (1 <= deg)%nat ->
  find_integral_basis m f = Done O -> non_monic_initial_order f = Done o0 ->
  length O = deg /\ Forall (fun r => length r = deg) O /\
  forall i, (i < deg)%nat -> in_spanQ deg (nth i o0 []) O.
Proof. exact Round2Lattice.find_integral_basis_contains. Qed.

(** [P] 1 lies in the returned order: the coordinate vector (1, 0, .., 0) of 1 in the power basis is an integer
    combination of the rows of the returned basis *)
Theorem find_integral_basis_one : forall m f deg O,
  length f = S deg -> (1 <= deg)%nat -> find_integral_basis m f = Done O -> in_spanQ deg (one_vec deg) O.
Proof. exact Round2Det.find_integral_basis_one. Qed.

(** [P] the fuel of the three loops of round2.rs without a syntactic bound suffices: for p >= 2
    [while pow < deg { pow *= p }] returns a power >= deg, [while index > 1 { .. index /= p }] and the
    square-and-multiply loop of [pow_mod_p] never run out of fuel.  (The HNF calls have their own
    termination theorem [hnf_terminates], C02.) *)
Theorem pow_ge_total : forall deg p, 2 <= p -> exists r, pow_ge deg p = Done r /\ deg <= r.
Proof. exact Round2Fuel.pow_ge_total. Qed.

Theorem howmany_of_fuel_ok : forall index p, 2 <= p -> howmany_of index p <> OutOfFuel.
Proof. exact Round2Fuel.howmany_of_fuel_ok. Qed.

Theorem pow_mod_p_fuel_ok : forall a e t p, pow_mod_p a e t p <> OutOfFuel.
Proof. exact Round2Fuel.pow_mod_p_fuel_ok. Qed.

(** ** Non-vacuity *)

(** x^2 + 3: the starting order Z[theta] has index 2 in the maximal order, discriminant -3 *)
Example ib_find_x2_3 :
  match ib_find Checked [3; 0; 1] with Done (_, d, i) => (d =? -3) && (i =? 2) | _ => false end = true.
Proof. vm_compute. reflexivity. Qed.

(** Dedekind's cubic x^3 - x^2 - 2x - 8: index 2, discriminant -503 *)
Example ib_find_dedekind :
  match ib_find Checked [-8; -2; -1; 1] with Done (_, d, i) => (d =? -503) && (i =? 2) | _ => false end = true.
Proof. vm_compute. reflexivity. Qed.

(** the driver returns on both (hypothesis of [find_integral_basis_fixpoint]) *)
Example fixpoint_hyp : (exists O, find_integral_basis Checked [3; 0; 1] = Done O)
                       /\ (exists O, find_integral_basis Checked [-8; -2; -1; 1] = Done O).
Proof. split; eexists; vm_compute; reflexivity. Qed.

(** x^2 + 12 (disc -48 = -2^4 * 3): the run at 2 makes two enlarging steps, then exits with e' = 0 < 2 *)
Example run_two_steps :
  match non_monic_initial_order [12; 0; 1] with
  | Done o0 =>
    match one_step [12; 0; 1] o0 2 with
    | Done (o1, h1) =>
      match one_step [12; 0; 1] o1 2 with
      | Done (o2, h2) => (h1 =? 1) && (h2 =? 1) &&
                         match order_index o1 o0, order_index o2 o1 with Done a, Done b => (a =? 2) && (b =? 2) | _, _ => false end
      | _ => false end
    | _ => false end
  | _ => false end = true.
Proof. vm_compute. reflexivity. Qed.

(** a step with [howmany = 0] on the maximal order of Q(sqrt -3) at p = 3, where 3^1 || disc *)
Example step_exit :
  match find_integral_basis Checked [3; 0; 1] with
  | Done om => match one_step [3; 0; 1] om 3 with Done (_, h) => h =? 0 | _ => false end
  | _ => false end = true.
Proof. vm_compute. reflexivity. Qed.

(** the hypotheses of [prime_loop_no_underflow_partial] at f = x^2 + 3, p = 2, e = 2, r = -3 *)
Example bookkeeping_hyp :
  prime 2 /\ rel_prime 2 (-3) /\
  match non_monic_initial_order [3; 0; 1] with
  | Done o0 => order_discriminant Checked (-12) o0 [3; 0; 1] = Done (2 ^ 2 * -3) /\
               (* the step from the starting order gives a lattice with integral discriminant *)
               match one_step [3; 0; 1] o0 2 with
               | Done (o1, h) => h = 1 /\ order_discriminant Checked (-12) o1 [3; 0; 1] = Done (-3)
               | _ => False end
  | _ => False end.
Proof.
  split; [exact prime_2|]. split; [|vm_compute; auto].
  apply rel_prime_sym, rel_prime_mod_rev; [reflexivity|]. change (-3 mod 2) with 1. apply rel_prime_1.
Qed.

(** containment, concretely: theta = -1 * 1 + 2 * (1 + theta)/2 in the maximal order of Q(sqrt -3) *)
Example contains_example :
  match non_monic_initial_order [3; 0; 1], find_integral_basis Checked [3; 0; 1] with
  | Done o0, Done om =>
    forall j, (j < 2)%nat -> nth j (nth 1 o0 []) Algebraic.q0 = combQ [-1; 2] om j
  | _, _ => False
  end.
Proof.
  vm_compute non_monic_initial_order. vm_compute find_integral_basis.
  intros [|[|j]] Hj; [apply Qc_is_canon; reflexivity | apply Qc_is_canon; reflexivity | exfalso].
  apply PeanoNat.Nat.succ_lt_mono, PeanoNat.Nat.succ_lt_mono in Hj. inversion Hj.
Qed.

(** [one_step_index] concretely: x^2 + 12 at p = 2 from the starting order (a stored basis): index 2 = 2^1 *)
Example one_step_index_example :
  match non_monic_initial_order [12; 0; 1] with
  | Done o0 => match one_step [12; 0; 1] o0 2 with
               | Done (o1, h) => h = 1 /\ order_index o1 o0 = Done (2 ^ 1)
               | _ => False end
  | _ => False end.
Proof. vm_compute. auto. Qed.

Example pow_ge_example : pow_ge 5 3 = Done 9 /\ pow_ge 4 2 = Done 4 /\ howmany_of 8 2 = Done 3.
Proof. vm_compute. auto. Qed.

(** * Third wave: the lattices I_p and U_p of the Round 2 step, and that the step cannot panic
    [In_rowspanZ m v A]: v is an integer combination of the rows of A ([lincomb m c A], MatZ.v);
    coordinates are with respect to the basis of the input order.  [AlgNormMx.tmul t n a b] is the value of
    [MultTable::mul] / [mul_mod_p] before the final reduction: the vector of the
    sum_{i,j} a_i b_j t[i][j][k] ([Round2W3Mul.mul_mod_p_closed]: on an n x n x n table and p <> 0,
    [mul_mod_p a b t p = Done (map (fun x => Z.rem x p) (tmul t n a b))]).
    [Round2W3Up.pI p i_p] = the rows of [i_p] multiplied by p (generators of p I_p). *)
From RNT.Model Require Hnf MultTable.
From RNT.Refine Require Import MatZ HnfSpec Round2W3Ip Round2W3Up Round2W3Step Round2W3Total.
From RNT.Refine Require MultTableOps AlgNormMx Round2W3Mul Round2W3Det.
From Coq Require Import Lia.

(** [P] mul_mod_p_closed: the closed form of the model's [mul_mod_p] *)
Theorem mul_mod_p_closed : forall n t a b p,
  MultTableOps.cube n t = true -> length a = n -> length b = n -> p <> 0 ->
  mul_mod_p a b t p = Done (map (fun x => Z.rem x p) (AlgNormMx.tmul t n a b)).
Proof. exact Round2W3Mul.mul_mod_p_closed. Qed.

(** [P] kernel_hnf_trunc_spec ([HNF::new(&HNF::kernel(&m))] with rows truncated to [w], round2.rs:67-71 and
    91-94): the rows returned generate the projection on the first [w] coordinates of the integer left
    kernel of [m] (from C03 [kernel_basis]: the kernel rows are a saturated basis; C02 [hnf_lattice]) *)
Theorem kernel_hnf_trunc_spec : forall M n m w R,
  shape n m M -> (1 <= n)%nat -> (1 <= m)%nat -> (w <= n)%nat ->
  kernel_hnf_trunc M w = Done R ->
  wf w R /\
  forall x, In_rowspanZ w x R <->
            exists v, length v = n /\ lincomb m v M = vzero m /\ x = firstn w v.
Proof. exact Round2W3Ip.kernel_hnf_trunc_spec. Qed.

(** [P] compute_i_p_spec: I_p = { x in Z^deg : sum_i x_i Phi_i = 0 (mod p) }, where row i of [Phi] is
    the first [deg] coordinates of e_i ^ pow computed by the model's [pow_mod_p] with the table mod p
    (both inclusions; in particular every row of I_p is annihilated mod p, and p Z^deg is inside) *)
Theorem compute_i_p_spec : forall deg p pow tbl i_p,
  (1 <= deg)%nat -> compute_i_p deg p pow tbl = Done i_p ->
  exists Phi,
    shape deg deg Phi /\
    (forall i, (i < deg)%nat -> exists r, pow_mod_p (unit_vec deg i) pow tbl p = Done r /\
                                          (deg <= length r)%nat /\ row Phi i = firstn deg r) /\
    wf deg i_p /\
    forall x, In_rowspanZ deg x i_p <->
              length x = deg /\ forall k, (k < deg)%nat -> (p | nth k (lincomb deg x Phi) 0).
Proof. exact Round2W3Ip.compute_i_p_spec. Qed.

Theorem i_p_contains_p : forall deg p pow tbl i_p y,
  (1 <= deg)%nat -> compute_i_p deg p pow tbl = Done i_p -> length y = deg ->
  In_rowspanZ deg (vscale p y) i_p.
Proof. exact Round2W3Ip.i_p_contains_p. Qed.

(** [C] compute_i_p_radical_partial: I_p = { x : x^pow = 0 (mod p) } with [x^pow] the model's [pow_mod_p],
    PROVIDED the power map is additive mod p on the order ([pow_linear]: pow_mod_p x = sum_i x_i Phi_i mod p
    for every x; true when the table is that of a commutative ring and p is prime, pow being a power of p --
    the "freshman's dream", which is NOT proved here).
    Full statement: the same without [pow_linear], for tables of orders and prime p. *)
Theorem compute_i_p_radical_partial : forall deg p pow tbl i_p,
  (1 <= deg)%nat -> compute_i_p deg p pow tbl = Done i_p ->
  exists Phi,
    shape deg deg Phi /\
    (forall i, (i < deg)%nat -> exists r, pow_mod_p (unit_vec deg i) pow tbl p = Done r /\
                                          (deg <= length r)%nat /\ row Phi i = firstn deg r) /\
    (pow_linear deg p pow tbl Phi ->
     forall x, In_rowspanZ deg x i_p <->
               length x = deg /\ exists r, pow_mod_p x pow tbl p = Done r /\
                                           forall k, (k < deg)%nat -> (p | nth k r 0)).
Proof. exact Round2W3Ip.compute_i_p_radical. Qed.

(** [P] up_step_spec: one iteration of the U_p loop (round2.rs:76-106) returns a normal form of the
    sub-lattice of the current U_p of the elements u with i_p[i] * u in p I_p (product by the table mod
    p^2; since p Z^deg is inside I_p the reduction mod p^2 of the products is immaterial) *)
Theorem up_step_spec : forall deg p tbl2 i_p i u_p u',
  MultTableOps.cube deg tbl2 = true -> (1 <= deg)%nat -> p <> 0 -> wf deg i_p -> wf deg u_p ->
  (i < length i_p)%nat ->
  (forall y, length y = deg -> In_rowspanZ deg (vscale p y) i_p) ->
  up_step deg p (p * p) tbl2 i_p i u_p = Done u' ->
  hnf_rows deg 0 u' /\
  forall u, In_rowspanZ deg u u' <->
            In_rowspanZ deg u u_p /\ In_rowspanZ deg (AlgNormMx.tmul tbl2 deg (row i_p i) u) (pI p i_p).
Proof. exact Round2W3Up.up_step_spec. Qed.

(** [P] one_step_lattices: in a returning call of the entry point [one_step]:
    I_p as in [compute_i_p_spec], and U_p = { u in I_p : x * u in p I_p for every x in I_p } (the p-fold of
    the multiplier ring of I_p, products by the table mod p^2); [h] generates U_p + p Z^deg and the new
    basis is (h / p) O ([one_step_contains]). *)
Theorem one_step_lattices : forall f o p o' hh deg,
  length f = S deg -> (1 <= deg)%nat -> p <> 0 -> one_step f o p = Done (o', hh) ->
  exists pow tbl tbl2 i_p u_p h Phi,
    pow_ge (pdeg f) p = Done pow /\ mult_tables f o deg p (p * p) = Done (tbl, tbl2) /\
    compute_i_p deg p pow tbl = Done i_p /\
    Hnf.for_loop (Hnf.range 0 (length i_p)) (up_step deg p (p * p) tbl2 i_p) i_p = Done u_p /\
    Hnf.hnf_new (u_p ++ p_rows deg p) = Done h /\
    shape deg deg Phi /\
    (forall i, (i < deg)%nat -> exists r, pow_mod_p (unit_vec deg i) pow tbl p = Done r /\
                                          (deg <= length r)%nat /\ row Phi i = firstn deg r) /\
    wf deg i_p /\
    (forall x, In_rowspanZ deg x i_p <->
               length x = deg /\ forall k, (k < deg)%nat -> (p | nth k (lincomb deg x Phi) 0)) /\
    (forall y, length y = deg -> In_rowspanZ deg (vscale p y) i_p) /\
    wf deg u_p /\
    (forall u, In_rowspanZ deg u u_p <->
               In_rowspanZ deg u i_p /\
               forall x, In_rowspanZ deg x i_p -> In_rowspanZ deg (AlgNormMx.tmul tbl2 deg x u) (pI p i_p)) /\
    (forall v, In_rowspanZ deg v h <-> In_rowspanZ deg v (u_p ++ p_rows deg p)).
Proof. exact Round2W3Total.one_step_lattices. Qed.

(** [P] one_step_no_panic: on a stored basis ([lower_from deg 0 o]: what [Order::from_basis] produces) and
    for a prime p, every panic of [one_step] is a panic of the construction of the two tables
    (round2.rs:26-45: [expect("O is not linearly independent")] or [assert!(inv[k].is_integer())], i.e. the
    input lattice is not closed under multiplication), and the step never runs out of fuel.  Unreachable:
    [assert!(u_p.len() <= deg)], [assert_eq!(u_p.dim(), deg)] (U_p + p Z^deg has full rank), the panics of
    [Order::from_basis] (the new basis (h/p) O is non-singular), the [panic!] of [index] (the old basis is an
    integer combination S of the new one) and every [assert_eq!(&index % p, 0)] (det S divides p^deg). *)
Theorem one_step_no_panic : forall f o p deg,
  length f = S deg -> (1 <= deg)%nat -> prime p -> lower_from deg 0 o ->
  forall r, one_step f o p = r ->
  match r with
  | Done _ => True
  | Panic t => mult_tables f o deg p (p * p) = Panic t
  | OutOfFuel => mult_tables f o deg p (p * p) = OutOfFuel
  end.
Proof. exact Round2W3Total.one_step_no_panic. Qed.

Theorem one_step_returns : forall f o p deg tbl tbl2,
  length f = S deg -> (1 <= deg)%nat -> prime p -> lower_from deg 0 o ->
  mult_tables f o deg p (p * p) = Done (tbl, tbl2) ->
  exists o' hh, one_step f o p = Done (o', hh).
Proof. exact Round2W3Total.one_step_returns. Qed.

(** [P] the pieces: the U_p loop and I_p never panic on well-shaped tables *)
Theorem compute_i_p_total : forall deg p pow tbl,
  MultTableOps.cube deg tbl = true -> (1 <= deg)%nat -> p <> 0 ->
  exists i_p, compute_i_p deg p pow tbl = Done i_p.
Proof. exact Round2W3Step.compute_i_p_total. Qed.

Theorem up_step_total : forall deg p tbl2 i_p i u_p,
  MultTableOps.cube deg tbl2 = true -> (1 <= deg)%nat -> p <> 0 -> wf deg i_p -> wf deg u_p ->
  (i < length i_p)%nat ->
  exists u', up_step deg p (p * p) tbl2 i_p i u_p = Done u' /\ hnf_rows deg 0 u'.
Proof. exact Round2W3Up.up_step_total. Qed.

(** ** Non-vacuity (third wave) *)

(** x^2 + 3 at p = 2 from Z[theta]: pow = 2, I_p = <(1,1), (-2,0)> = { x0 = x1 (mod 2) } (1 + theta is nilpotent
    mod 2), U_p = I_p, new basis 1, (1 + theta)/2.  Dedekind's cubic at p = 2: U_p + 2 Z^3 = <2, 2 theta, theta + theta^2>. *)
Definition w3_stages (f : list Z) (p : Z) :=
  match non_monic_initial_order f, pow_ge (pdeg f) p, deg_alloc f with
  | Done o0, Done pow, Done deg =>
    match mult_tables f o0 deg p (p * p) with
    | Done (tbl, tbl2) =>
      match compute_i_p deg p pow tbl with
      | Done i_p =>
        match Hnf.for_loop (Hnf.range 0 (length i_p)) (up_step deg p (p * p) tbl2 i_p) i_p with
        | Done u_p => match Hnf.hnf_new (u_p ++ p_rows deg p) with Done h => Some (pow, i_p, u_p, h) | _ => None end
        | _ => None end
      | _ => None end
    | _ => None end
  | _, _, _ => None end.

Example w3_x2_3 : w3_stages [3; 0; 1] 2 = Some (2, [[1; 1]; [-2; 0]], [[2; 0]; [1; 1]], [[2; 0]; [1; 1]]).
Proof. vm_compute. reflexivity. Qed.

Example w3_dedekind : w3_stages [-8; -2; -1; 1] 2
  = Some (4, [[0; -1; 1]; [-2; 0; 0]; [0; -2; 0]], [[2; 0; 0]; [0; 2; 0]; [0; 1; 1]], [[2; 0; 0]; [0; 2; 0]; [0; 1; 1]]).
Proof. vm_compute. reflexivity. Qed.

Example w3_x2_12 : w3_stages [12; 0; 1] 2 = Some (2, [[0; 1]; [-2; 0]], [[2; 0]; [0; 1]], [[2; 0]; [0; 1]]).
Proof. vm_compute. reflexivity. Qed.

(** a proper sub-lattice: on the maximal order of Q(sqrt -3) at p = 3, I_p = <sqrt -3, 3> but U_p = 3 O *)
Example w3_x2_3_at_3 : w3_stages [3; 0; 1] 3 = Some (3, [[0; 1]; [-3; 0]], [[3; 0]; [0; 3]], [[3; 0]; [0; 3]]).
Proof. vm_compute. reflexivity. Qed.

(** the hypotheses of [one_step_returns] / [one_step_no_panic] on these three inputs: prime p, a stored basis
    (by [non_monic_lower]), and the tables are computed *)
Example w3_no_panic_hyp :
  prime 2 /\
  (forall f deg o0, length f = S deg -> (1 <= deg)%nat -> non_monic_initial_order f = Done o0 -> lower_from deg 0 o0) /\
  match non_monic_initial_order [3; 0; 1], non_monic_initial_order [-8; -2; -1; 1], non_monic_initial_order [12; 0; 1] with
  | Done a, Done b, Done c =>
    (exists t t2, mult_tables [3; 0; 1] a 2 2 (2 * 2) = Done (t, t2)) /\
    (exists t t2, mult_tables [-8; -2; -1; 1] b 3 2 (2 * 2) = Done (t, t2)) /\
    (exists t t2, mult_tables [12; 0; 1] c 2 2 (2 * 2) = Done (t, t2))
  | _, _, _ => False
  end.
Proof.
  split; [exact prime_2|]. split; [exact Round2Det.non_monic_lower|].
  vm_compute. repeat split; do 2 eexists; reflexivity.
Qed.

(** ... and a lattice that is not closed under multiplication: <1, theta/2> in Q(sqrt -3); the only panic is the
    [is_integer] assertion of the table construction *)
Example w3_not_a_ring :
  let o := [[Q2Qc 1; Q2Qc 0]; [Q2Qc 0; Q2Qc (1 # 2)]] in
  one_step [3; 0; 1] o 2 = Panic PAssert /\ mult_tables [3; 0; 1] o 2 2 (2 * 2) = Panic PAssert.
Proof. vm_compute. auto. Qed.

(** [compute_i_p_spec] read on x^2 + 3, p = 2: Phi = [[1; 0]; [-1; 0]] (1^2 = 1, theta^2 = -3 = -1 mod 2, truncating
    remainder), so x is in I_p iff x0 - x1 is even; (1, 1) is, (1, 0) is not *)
Example w3_i_p_membership :
  In_rowspanZ 2 [1; 1] [[1; 1]; [-2; 0]] /\ (2 | nth 0 (lincomb 2 [1; 1] [[1; 0]; [-1; 0]]) 0) /\
  ~ (2 | nth 0 (lincomb 2 [1; 0] [[1; 0]; [-1; 0]]) 0).
Proof.
  split; [exists [1; 0]; split; reflexivity|]. split; [exists 0; reflexivity|].
  intros [q Hq]. cbn in Hq. lia.
Qed.

(** the multiplier condition of [up_step_spec] on x^2 + 3 at p = 3 (maximal order, table2 = table mod 9):
    sqrt(-3) * sqrt(-3) = -3 is not in 3 I_p = <3 sqrt -3, 9>, so sqrt(-3) leaves U_p *)
Example w3_multiplier :
  mul_mod_p [0; 1] [0; 1] [[[1; 0]; [0; 1]]; [[0; 1]; [-3; 0]]] 9 = Done [-3; 0] /\
  pI 3 [[0; 1]; [-3; 0]] = [[0; 3]; [-9; 0]] /\
  ~ In_rowspanZ 2 [-3; 0] [[0; 3]; [-9; 0]].
Proof.
  split; [vm_compute; reflexivity|]. split; [vm_compute; reflexivity|].
  intros [c [Lc E]]. destruct c as [|c0 [|c1 [|]]]; try discriminate.
  cbn in E. injection E as E0 E1. lia.
Qed.

(** ** ring closure of the new lattice (coordinates with respect to the input order) *)
From RNT.Refine Require Import Round2W3Ring Round2W3Order.
From RNT.Refine Require PolyZ.


(** [P] mult_tables_exact: the two tables of the step are the entrywise reductions (truncating [%]) mod p^2 and
    mod p of the exact table that [Order::get_mult_table] returns for the same order *)
Theorem mult_tables_exact : forall f o deg p p2 tbl tbl2,
  length o = deg -> mult_tables f o deg p p2 = Done (tbl, tbl2) ->
  exists T, get_mult_table o f = Done T /\
            tbl2 = map (map (map (fun x => Z.rem x p2))) T /\
            tbl = map (map (map (fun x => Z.rem (Z.rem x p2) p))) T.
Proof. exact Round2W3Ring.mult_tables_exact. Qed.

(** [C] one_step_ring_closed_partial.  [ideal_of T deg i_p]: the lattice I_p is stable under multiplication
    by every element of the order (T its exact table).  In a returning call of [one_step] on an order with a
    [deg x deg] basis and f with non-zero leading coefficient: T exists, is deg x deg x deg, commutative and
    associative (C14), the step's table mod p^2 is its reduction, the lattice L generated by the rows [h] handed
    to [new_basis] contains p Z^deg (so the new lattice (1/p) L O contains O, hence 1), and IF I_p IS AN IDEAL
    then a * b is in p L for all a, b in L: (1/p) L O is closed under multiplication.
    Full statement: the same without [ideal_of] (I_p is the radical of p O, an ideal; needs the additivity of
    x -> x^(p^k) modulo p in a commutative ring, which is NOT proved) and lifted from coordinates to the stored
    rational basis [o'] ([mult_tables f o' ..] returns). *)
Theorem one_step_ring_closed_partial : forall f o p o' hh deg,
  PolyZ.canonZ f = true -> length f = S deg -> (1 <= deg)%nat -> p <> 0 ->
  length o = deg -> Forall (fun r => length r = deg) o ->
  one_step f o p = Done (o', hh) ->
  exists T pow tbl tbl2 i_p u_p h,
    get_mult_table o f = Done T /\
    MultTableOps.cube deg T = true /\ AlgNormMx.tcomm T deg /\ AlgNormMx.tassoc T deg /\
    tbl2 = map (map (map (fun x => Z.rem x (p * p)))) T /\
    pow_ge (pdeg f) p = Done pow /\ mult_tables f o deg p (p * p) = Done (tbl, tbl2) /\
    compute_i_p deg p pow tbl = Done i_p /\
    Hnf.for_loop (Hnf.range 0 (length i_p)) (up_step deg p (p * p) tbl2 i_p) i_p = Done u_p /\
    Hnf.hnf_new (u_p ++ p_rows deg p) = Done h /\ wf deg h /\
    (forall y, length y = deg -> In_rowspanZ deg (vscale p y) h) /\
    (ideal_of T deg i_p ->
     forall a b, In_rowspanZ deg a h -> In_rowspanZ deg b h ->
                 In_rowspanZ deg (AlgNormMx.tmul T deg a b) (pI p h)).
Proof. exact Round2W3Order.one_step_ring_closed. Qed.

(** non-vacuity: x^2 + 3 at p = 2 (T = [[1,0],[0,1]],[[0,1],[-3,0]]; I_p = <(1,1), (-2,0)> is an ideal:
    theta (1 + theta) = -3 + theta = -4 (1) + 1 (1 + theta)); L = <(2,0), (1,1)> and (1,1)(1,1) = (-2, 2) = 2 (-1,1) in 2 L *)
Example w3_ring_hyp :
  PolyZ.canonZ [3; 0; 1] = true /\
  match non_monic_initial_order [3; 0; 1] with
  | Done o0 => get_mult_table o0 [3; 0; 1] = Done [[[1; 0]; [0; 1]]; [[0; 1]; [-3; 0]]] /\
               length o0 = 2%nat /\ Forall (fun r => length r = 2%nat) o0 /\
               exists o' hh, one_step [3; 0; 1] o0 2 = Done (o', hh)
  | _ => False end.
Proof.
  split; [reflexivity|]. vm_compute non_monic_initial_order. cbv iota.
  split; [vm_compute; reflexivity|]. split; [reflexivity|]. split; [repeat constructor|].
  vm_compute. do 2 eexists. reflexivity.
Qed.

Example w3_ring_ideal : ideal_of [[[1; 0]; [0; 1]]; [[0; 1]; [-3; 0]]] 2 [[1; 1]; [-2; 0]].
Proof.
  intros x y [c [Lc Ex]] Ly.
  destruct c as [|c0 [|c1 [|]]]; try discriminate. destruct y as [|y0 [|y1 [|]]]; try discriminate.
  assert (Ex' : x = [c0 - 2 * c1; c0]).
  { subst x. cbn [lincomb vadd vscale map map2 vzero repeat]. f_equal; [ring | f_equal; ring]. }
  rewrite Ex'. clear Ex Ex' x.
  rewrite (Round2W3Mul.tmul_by_mt (n := 2%nat) (r := [y0 * (c0 - 2 * c1) - 3 * (y1 * c0); y0 * c0 + y1 * (c0 - 2 * c1)])).
  - exists [y0 * c0 + y1 * (c0 - 2 * c1); c1 * y0 + 2 * (y1 * c0) - c1 * y1]. split; [reflexivity|].
    cbn [lincomb vadd vscale map map2 vzero repeat]. f_equal; [ring | f_equal; ring].
  - reflexivity.
  - reflexivity.
  - reflexivity.
  - unfold MultTable.mt_mul. cbn [debug_assert bind length Hnf.range Nat.sub seq Hnf.for_loop nth_chk nth_error MultTable.addmul_prefix repeat].
    f_equal. f_equal; [ring | f_equal; ring].
Qed.

(** ** the radical: I_p = { x : x^pow = 0 (mod p) } is an ideal; ring closure without the ideal hypothesis *)
From RNT.Refine Require Import Round2W3Radical.
From RNT.Refine Require Round2W3Frob Round2W3Unit.

(** [P] pow_additive (the "freshman's dream" for the model's [pow_mod_p]).  T: a deg x deg x deg table whose
    product [tmul] is commutative, associative and has a unit [one]; p prime; [tbl] = T reduced mod p^2 then mod p
    with truncating remainders (exactly the table [one_step] builds, [mult_tables_exact]); q = p^k.  Then
    (1) x^q = sum_i x_i e_i^q (mod p) for every integer vector x (Phi_i = e_i^q computed by [pow_mod_p]), and
    (2) if x^q = 0 (mod p) then (y x)^q = 0 (mod p) for every y.
    Proof: the regular representation reduced mod p maps into commuting matrices over F_p (MathComp:
    [Frobenius_autD_comm]), is multiplicative on [mul_mod_p], and is faithful mod p because of the unit. *)
Theorem pow_additive : forall (deg : nat) (p : Z) (T : MultTable.table) (one : list Z) (k : nat),
  (1 <= deg)%nat -> prime p ->
  MultTableOps.cube deg T = true -> AlgNormMx.tcomm T deg -> AlgNormMx.tassoc T deg ->
  length one = deg -> (forall x, length x = deg -> AlgNormMx.tmul T deg one x = x) ->
  let tbl := map (map (map (fun x => Z.rem (Z.rem x (p * p)) p))) T in
  let q := p ^ Z.of_nat k in
  (forall x (Phi : list (list Z)) r, length x = deg -> shape deg deg Phi ->
     (forall i, (i < deg)%nat -> pow_mod_p (unit_vec deg i) q tbl p = Done (nth i Phi [])) ->
     pow_mod_p x q tbl p = Done r ->
     forall j, (p | nth j r 0 - nth j (lincomb deg x Phi) 0)) /\
  (forall x y rx r, length x = deg -> length y = deg ->
     pow_mod_p x q tbl p = Done rx -> (forall j, (p | nth j rx 0)) ->
     pow_mod_p (AlgNormMx.tmul T deg y x) q tbl p = Done r -> forall j, (p | nth j r 0)).
Proof. exact Round2W3Frob.frobenius_pack. Qed.

(** [P] order_has_unit: the table of an order that contains 1 has a unit (the integer coordinates of 1) *)
Theorem order_has_unit : forall f n (o : qmat) T,
  PolyZ.canonZ f = true -> length f = S n -> (1 <= n)%nat -> length o = n -> Forall (fun r => length r = n) o ->
  get_mult_table o f = Done T -> in_spanQ n (one_vec n) o -> has_unit T n.
Proof. exact Round2W3Radical.order_has_unit_list. Qed.

(** [P] reachable_step_order.  For every Round 2 step that the driver can take -- on an order [o] reachable from the
    starting order Z[theta] cap Z[1/theta], at a prime p, f with non-zero leading coefficient -- and that returns:
    - [pow_linear]: the power map is additive mod p, so I_p = { x : x^pow = 0 (mod p) } with the model's own
      [pow_mod_p] (the p-radical of the order, in coordinates);
    - [ideal_of T deg i_p]: I_p is an ideal of the order (T = its exact table, commutative and associative);
    - ring closure: a * b is in p L for all a, b in the lattice L = U_p + p Z^deg generated by the rows [h] handed to
      [new_basis], and p Z^deg is inside L: the new lattice (1/p) L O contains O and is closed under multiplication.
    NOT included: the translation from coordinates to the stored rational basis [o'] (that [get_mult_table o' f]
    returns), which is what would make "is an order" an invariant of the driver's loop. *)
Theorem reachable_step_order : forall f o0 o p o' hh deg,
  PolyZ.canonZ f = true -> length f = S deg -> (1 <= deg)%nat -> prime p ->
  non_monic_initial_order f = Done o0 -> reachable f o0 o ->
  one_step f o p = Done (o', hh) ->
  exists T pow tbl tbl2 i_p u_p h Phi,
    get_mult_table o f = Done T /\
    pow_ge (pdeg f) p = Done pow /\ mult_tables f o deg p (p * p) = Done (tbl, tbl2) /\
    compute_i_p deg p pow tbl = Done i_p /\
    Hnf.for_loop (Hnf.range 0 (length i_p)) (up_step deg p (p * p) tbl2 i_p) i_p = Done u_p /\
    Hnf.hnf_new (u_p ++ p_rows deg p) = Done h /\ wf deg h /\
    shape deg deg Phi /\
    (forall i, (i < deg)%nat -> pow_mod_p (unit_vec deg i) pow tbl p = Done (row Phi i)) /\
    (forall y, length y = deg -> In_rowspanZ deg (vscale p y) h) /\
    pow_linear deg p pow tbl Phi /\
    (forall x, In_rowspanZ deg x i_p <->
               length x = deg /\ exists r, pow_mod_p x pow tbl p = Done r /\
                                           forall k, (k < deg)%nat -> (p | nth k r 0)) /\
    ideal_of T deg i_p /\
    forall a b, In_rowspanZ deg a h -> In_rowspanZ deg b h ->
                In_rowspanZ deg (AlgNormMx.tmul T deg a b) (pI p h).
Proof. exact Round2W3Radical.reachable_step_order. Qed.

(** [P] the same for any input order with a [deg x deg] basis that contains 1 *)
Theorem one_step_order_one : forall f o p o' hh deg,
  PolyZ.canonZ f = true -> length f = S deg -> (1 <= deg)%nat -> prime p ->
  length o = deg -> Forall (fun r => length r = deg) o ->
  in_spanQ deg (one_vec deg) o ->
  one_step f o p = Done (o', hh) ->
  exists T pow tbl tbl2 i_p u_p h Phi,
    get_mult_table o f = Done T /\
    pow_ge (pdeg f) p = Done pow /\ mult_tables f o deg p (p * p) = Done (tbl, tbl2) /\
    compute_i_p deg p pow tbl = Done i_p /\
    Hnf.for_loop (Hnf.range 0 (length i_p)) (up_step deg p (p * p) tbl2 i_p) i_p = Done u_p /\
    Hnf.hnf_new (u_p ++ p_rows deg p) = Done h /\ wf deg h /\
    shape deg deg Phi /\
    (forall i, (i < deg)%nat -> pow_mod_p (unit_vec deg i) pow tbl p = Done (row Phi i)) /\
    (forall y, length y = deg -> In_rowspanZ deg (vscale p y) h) /\
    pow_linear deg p pow tbl Phi /\
    (forall x, In_rowspanZ deg x i_p <->
               length x = deg /\ exists r, pow_mod_p x pow tbl p = Done r /\
                                           forall k, (k < deg)%nat -> (p | nth k r 0)) /\
    ideal_of T deg i_p /\
    forall a b, In_rowspanZ deg a h -> In_rowspanZ deg b h ->
                In_rowspanZ deg (AlgNormMx.tmul T deg a b) (pI p h).
Proof. exact Round2W3Radical.one_step_order_one. Qed.

(** non-vacuity: the hypotheses of [reachable_step_order] at the first and the second step of x^2 + 12, p = 2
    (a step on an order that is not the starting order), and on Dedekind's cubic *)
Example w3_reachable_hyp :
  PolyZ.canonZ [12; 0; 1] = true /\ PolyZ.canonZ [-8; -2; -1; 1] = true /\ prime 2 /\
  match non_monic_initial_order [12; 0; 1] with
  | Done o0 =>
    match one_step [12; 0; 1] o0 2 with
    | Done (o1, _) => reachable [12; 0; 1] o0 o1 /\ exists o2 h2, one_step [12; 0; 1] o1 2 = Done (o2, h2)
    | _ => False end
  | _ => False end /\
  match non_monic_initial_order [-8; -2; -1; 1] with
  | Done o0 => exists o1 h1, one_step [-8; -2; -1; 1] o0 2 = Done (o1, h1)
  | _ => False end.
Proof.
  split; [reflexivity|]. split; [reflexivity|]. split; [exact prime_2|]. split.
  - destruct (non_monic_initial_order [12; 0; 1]) as [o0| |] eqn:E0; [|vm_compute in E0; discriminate..].
    destruct (one_step [12; 0; 1] o0 2) as [[o1 h1]| |] eqn:E1.
    + split; [eapply reach_step; [apply reach_refl|exact E1]|].
      assert (X : match non_monic_initial_order [12; 0; 1] with
                  | Done o0 => match one_step [12; 0; 1] o0 2 with
                               | Done (o1, _) => match one_step [12; 0; 1] o1 2 with Done _ => True | _ => False end
                               | _ => False end
                  | _ => False end) by (vm_compute; exact I).
      rewrite E0, E1 in X. destruct (one_step [12; 0; 1] o1 2) as [[o2 h2]| |]; [eauto|destruct X..].
    + assert (X : match non_monic_initial_order [12; 0; 1] with
                  | Done o0 => match one_step [12; 0; 1] o0 2 with Done _ => True | _ => False end
                  | _ => False end) by (vm_compute; exact I).
      rewrite E0, E1 in X. destruct X.
    + assert (X : match non_monic_initial_order [12; 0; 1] with
                  | Done o0 => match one_step [12; 0; 1] o0 2 with Done _ => True | _ => False end
                  | _ => False end) by (vm_compute; exact I).
      rewrite E0, E1 in X. destruct X.
  - vm_compute. do 2 eexists. reflexivity.
Qed.

(** the radical of 2 O in Z[sqrt -3]: x = (1, 1) has x^2 = -2 + 2 theta = 0 (mod 2), and e_1^2 = theta^2 = -3 = (-1, 0) mod 2 *)
Example w3_radical_example :
  let tbl := [[[1; 0]; [0; 1]]; [[0; 1]; [-1; 0]]] in
  pow_mod_p [1; 1] 2 tbl 2 = Done [0; 0] /\ pow_mod_p [0; 1] 2 tbl 2 = Done [-1; 0] /\ pow_mod_p [1; 0] 2 tbl 2 = Done [1; 0].
Proof. vm_compute. auto. Qed.

(** ** the Round 2 step maps orders to orders; the driver *)
From RNT.Refine Require Import Round2W3Driver.

(** [is_order f deg o]: [o] is a stored basis (lower triangular, positive diagonal: what [Order::from_basis]
    returns) of a lattice that contains 1 and is closed under multiplication ([Order::get_mult_table] returns on it:
    every product of two basis elements has integer coordinates). *)

(** [P] one_step_is_order: from coordinates to the stored rational basis.  If the input of a returning Round 2 step
    at a prime p is an order (f with non-zero leading coefficient), so is its result: it contains the input (hence
    1), is a stored basis, and [get_mult_table] returns on it.  (Ring closure in coordinates,
    [reachable_step_order], carried to the basis [o' = hnf_reduce((h/p) O)] through the product of Q[x]/(f):
    C14 [table_mul_agrees] for the input order, [solve_linear_system] on the non-singular new basis.) *)
Theorem one_step_is_order : forall f o p o' hh deg,
  PolyZ.canonZ f = true -> length f = S deg -> (1 <= deg)%nat -> prime p ->
  lower_from deg 0 o -> in_spanQ deg (one_vec deg) o ->
  one_step f o p = Done (o', hh) ->
  lower_from deg 0 o' /\ in_spanQ deg (one_vec deg) o' /\ exists T', get_mult_table o' f = Done T'.
Proof. exact Round2W3Driver.one_step_is_order. Qed.

(** [P] order_step_returns: on an order and at a prime, the step returns (no panic, enough fuel) *)
Theorem order_step_returns : forall f deg o p,
  length f = S deg -> (1 <= deg)%nat -> prime p -> is_order f deg o ->
  exists o' hh, one_step f o p = Done (o', hh).
Proof. exact Round2W3Driver.order_step_returns. Qed.

Theorem order_step_order : forall f deg o p o' hh,
  PolyZ.canonZ f = true -> length f = S deg -> (1 <= deg)%nat -> prime p -> is_order f deg o ->
  one_step f o p = Done (o', hh) -> is_order f deg o'.
Proof. exact Round2W3Driver.order_step_order. Qed.

(** [P] prime_loop_order: the [while] loop at a prime, started on an order, returns an order or panics with the
    u64 overflow of [e -= 2 * howmany] (dev profile; never in the release profile) *)
Theorem prime_loop_order : forall f deg p m,
  PolyZ.canonZ f = true -> length f = S deg -> (1 <= deg)%nat -> prime p ->
  forall fuel o e, is_order f deg o ->
  match prime_loop fuel m f o p e with
  | Done o' => is_order f deg o'
  | Panic t => t = POverflow
  | OutOfFuel => True
  end.
Proof. exact Round2W3Driver.prime_loop_order. Qed.

(** [C] find_integral_basis_order_partial: PROVIDED the starting order Z[theta] cap Z[1/theta] is closed under
    multiplication (flag computed by the model: [Order::get_mult_table] returns on it), the driver returns an
    order, and each of its panics is a panic of [non_monic_initial_order], of [o.discriminant(theta)], of the trial
    factorisation (discriminant 0), or the u64 overflow of the exponent bookkeeping: no assertion, index or unwrap
    panic of [one_step] is reachable (the primes come from [trial_factorize], C11 [trial_factorize_spec]).
    Full statement: the same without the flag (the starting order of every non-constant f is a ring: not proved;
    for monic f it is Z[theta]). *)
Theorem find_integral_basis_order_partial : forall m f deg,
  PolyZ.canonZ f = true -> length f = S deg -> (1 <= deg)%nat ->
  (forall o0, non_monic_initial_order f = Done o0 -> exists T0, get_mult_table o0 f = Done T0) ->
  match find_integral_basis m f with
  | Done om => is_order f deg om
  | Panic t =>
      non_monic_initial_order f = Panic t \/
      (exists o0, non_monic_initial_order f = Done o0 /\
         (order_disc m o0 f = Panic t \/
          exists disc, order_disc m o0 f = Done disc /\
            (Elementary.trial_factorize (Z.abs disc) = Panic t \/ t = POverflow)))
  | OutOfFuel => True
  end.
Proof. exact Round2W3Driver.find_integral_basis_order. Qed.

(** non-vacuity: the flag on x^2 + 3, Dedekind's cubic, x^2 + 12 and the non-monic 2x^3 + x + 1 *)
Example w3_flag :
  (forall f, In f [[3; 0; 1]; [-8; -2; -1; 1]; [12; 0; 1]; [1; 1; 0; 2]] ->
     PolyZ.canonZ f = true /\
     match non_monic_initial_order f with
     | Done o0 => match get_mult_table o0 f with Done _ => True | _ => False end
     | _ => False end).
Proof.
  intros f [<-|[<-|[<-|[<-|[]]]]]; (split; [reflexivity|vm_compute; exact I]).
Qed.

(** the maximal order of Q(sqrt -3) is an order in this sense: its table is returned *)
Example w3_result_table :
  match find_integral_basis Checked [3; 0; 1] with
  | Done om => get_mult_table om [3; 0; 1] = Done [[[1; 0]; [0; 1]]; [[0; 1]; [-1; 1]]]
  | _ => False end.
Proof. vm_compute. reflexivity. Qed.

(** [P] one_step_only_assert: on a stored basis and at a prime (f with non-zero leading coefficient), [one_step] never
    runs out of fuel and its only reachable panic is [assert!(inv[k].is_integer())] of the table construction
    (round2.rs:40): the input lattice is not closed under multiplication *)
Theorem one_step_only_assert : forall f o p deg,
  PolyZ.canonZ f = true -> length f = S deg -> (1 <= deg)%nat -> prime p -> lower_from deg 0 o ->
  match one_step f o p with
  | Done _ => True
  | Panic t => t = PAssert /\ mult_tables f o deg p (p * p) = Panic PAssert
  | OutOfFuel => False
  end.
Proof. exact Round2W3Driver.one_step_only_assert. Qed.

(** ** monic f: no flag *)
From RNT.Refine Require Import Round2W3Start.

(** [P] monic_start_table: for monic f (leading coefficient 1, degree >= 1) the starting order has the lattice of the
    power basis 1, theta, .., theta^(deg-1) and [Order::get_mult_table] returns on it (remainders of X^k by a monic
    integer polynomial are integer polynomials) *)
Theorem monic_start_table : forall f deg o0,
  PolyZ.canonZ f = true -> length f = S deg -> (1 <= deg)%nat -> nth deg f 0 = 1 ->
  non_monic_initial_order f = Done o0 -> exists T0, get_mult_table o0 f = Done T0.
Proof. exact Round2W3Start.monic_start_table. Qed.

(** [P] find_integral_basis_order_monic: for every monic f of degree >= 1, in both build profiles: if the driver
    returns, the result is an order (a stored basis of a lattice that contains 1 and is closed under multiplication),
    and every panic of the driver is a panic of [non_monic_initial_order], of [o.discriminant(theta)], of the trial
    factorisation (discriminant 0: f not squarefree), or the u64 overflow of [e -= 2 * howmany]; in particular no
    assertion, index, unwrap or division panic inside [one_step] is reachable, and neither is [OutOfFuel] inside it
    ([prime_loop_fuel_ok]). *)
Theorem find_integral_basis_order_monic : forall m f deg,
  PolyZ.canonZ f = true -> length f = S deg -> (1 <= deg)%nat -> nth deg f 0 = 1 ->
  match find_integral_basis m f with
  | Done om => is_order f deg om
  | Panic t =>
      non_monic_initial_order f = Panic t \/
      (exists o0, non_monic_initial_order f = Done o0 /\
         (order_disc m o0 f = Panic t \/
          exists disc, order_disc m o0 f = Done disc /\
            (Elementary.trial_factorize (Z.abs disc) = Panic t \/ t = POverflow)))
  | OutOfFuel => True
  end.
Proof. exact Round2W3Start.find_integral_basis_order_monic. Qed.

(** non-vacuity: the hypotheses on Dedekind's cubic; the driver returns on it *)
Example w3_monic_hyp :
  PolyZ.canonZ [-8; -2; -1; 1] = true /\ length [-8; -2; -1; 1] = 4%nat /\ nth 3 [-8; -2; -1; 1] 0 = 1 /\
  exists om, find_integral_basis Checked [-8; -2; -1; 1] = Done om.
Proof. split; [reflexivity|]. split; [reflexivity|]. split; [reflexivity|]. eexists. vm_compute. reflexivity. Qed.

(** * Fourth wave: the exponent bookkeeping never underflows; monic f: the driver returns; Pohst-Zassenhaus *)
From RNT.Refine Require Import Round2W4NoPanic.

(** [P] prime_loop_no_underflow: the statement of [prime_loop_no_underflow_partial] without its integrality
    hypothesis, in both build profiles.  On an order [o] (stored basis, contains 1, [get_mult_table] returns; f with
    non-zero leading coefficient, degree deg with 2 deg < 2^64) whose discriminant is p^e * r with the prime p not
    dividing r and 0 <= e < 2^64, the [while] loop of the driver never panics: every step returns
    ([order_step_returns]), every order on the way has an integer discriminant (C15 [order_disc_trace_form]),
    disc(old) = disc(new) p^(2 howmany) ([disc_index], [one_step_index]), hence 2 howmany <= e at every turn. *)
Theorem prime_loop_no_underflow : forall m f deg p,
  PolyZ.canonZ f = true -> length f = S deg -> (1 <= deg)%nat -> 2 * Z.of_nat deg < two64 -> prime p ->
  forall fuel o e r d t,
  is_order f deg o -> order_disc m o f = Done d -> d = p ^ e * r -> rel_prime p r -> 0 <= e < two64 ->
  prime_loop fuel m f o p e <> Panic t.
Proof. exact Round2W4NoPanic.prime_loop_no_underflow_order. Qed.

(** [P] prime_loop_returns: ... and with the fuel [e < 2 fuel] (the driver gives [e + 2]) it returns an order whose
    discriminant is that of the input divided by a power of p *)
Theorem prime_loop_returns : forall m f deg,
  PolyZ.canonZ f = true -> length f = S deg -> (1 <= deg)%nat -> 2 * Z.of_nat deg < two64 ->
  forall p, prime p ->
  forall fuel o e r d,
  is_order f deg o -> order_disc m o f = Done d -> d = p ^ e * r -> rel_prime p r -> 0 <= e < two64 ->
  match prime_loop fuel m f o p e with
  | Done o' => is_order f deg o' /\ exists d' s, order_disc m o' f = Done d' /\ 0 <= s /\ d = d' * p ^ s
  | Panic _ => False
  | OutOfFuel => 2 * Z.of_nat fuel <= e
  end.
Proof. exact Round2W4NoPanic.prime_loop_ok. Qed.

(** [P] find_integral_basis_no_panic_monic: for every monic f of degree deg >= 1 (2 deg < 2^64) whose starting order
    Z[theta] has a non-zero discriminant d0 = disc(f) with fewer than 2^64 bits (so that the exponents of the trial
    factorisation fit the u64 they are stored in), in BOTH build profiles the driver returns (no panic, enough
    fuel), and the result is an order.  (For d0 = 0 [trial_factorize] panics on its [assert!(n >= 1)].) *)
Theorem find_integral_basis_no_panic_monic : forall m f deg,
  PolyZ.canonZ f = true -> length f = S deg -> (1 <= deg)%nat -> 2 * Z.of_nat deg < two64 -> nth deg f 0 = 1 ->
  (forall o0 d0, non_monic_initial_order f = Done o0 -> order_disc m o0 f = Done d0 ->
     d0 <> 0 /\ Z.log2 (Z.abs d0) < two64) ->
  exists O, find_integral_basis m f = Done O /\ is_order f deg O.
Proof. exact Round2W4NoPanic.find_integral_basis_no_panic_monic. Qed.

(** [P] the starting order of a monic f is computed *)
Theorem non_monic_total_monic : forall f deg, length f = S deg -> (1 <= deg)%nat -> nth deg f 0 = 1 ->
  exists o0, non_monic_initial_order f = Done o0.
Proof. exact Round2W4NoPanic.non_monic_total_monic. Qed.

(** non-vacuity: the discriminant hypothesis on x^2 + 3 (d0 = -12), x^2 + 12 (d0 = -48), Dedekind's cubic (d0 = -2012) *)
Example w4_no_panic_hyp : forall f, In f [[3; 0; 1]; [12; 0; 1]; [-8; -2; -1; 1]] ->
  PolyZ.canonZ f = true /\ nth (length f - 1) f 0 = 1 /\
  forall m o0 d0, non_monic_initial_order f = Done o0 -> order_disc m o0 f = Done d0 ->
    d0 <> 0 /\ Z.log2 (Z.abs d0) < two64.
Proof.
  intros f [<-|[<-|[<-|[]]]]; (split; [reflexivity|]; split; [reflexivity|]);
    intros m o0 d0 N0 D0; vm_compute in N0; injection N0 as <-;
    destruct m; vm_compute in D0; injection D0 as <-; split; try discriminate; reflexivity.
Qed.

(** the hypotheses of [prime_loop_no_underflow] on x^2 + 12 at p = 2: disc = -48 = 2^4 * -3 *)
Example w4_underflow_hyp :
  match non_monic_initial_order [12; 0; 1] with
  | Done o0 => order_disc Checked o0 [12; 0; 1] = Done (2 ^ 4 * -3) /\ rel_prime 2 (-3) /\
               exists T0, get_mult_table o0 [12; 0; 1] = Done T0
  | _ => False end.
Proof.
  vm_compute non_monic_initial_order. cbv iota. split; [vm_compute; reflexivity|]. split.
  - apply rel_prime_sym, rel_prime_mod_rev; [reflexivity|]. change (-3 mod 2) with 1. apply rel_prime_1.
  - vm_compute. eexists. reflexivity.
Qed.

(** ** Pohst-Zassenhaus: a Round 2 step returns howmany = 0 iff the order is p-maximal; the result is the maximal order
    [over_order f deg o o2]: [o2] is a deg x deg rational basis on which [Order::get_mult_table] returns (the lattice is
    closed under multiplication, with integer structure constants) and every row of [o] is an integer combination of
    rows of [o2] (O is inside O2; hence 1 is in O2 when it is in O).
    [p_maximal f deg p o]: for every over-order [o2] of [o], p does not divide [order_index o2 o] -- the model's
    [index(&o2, &o)] = det(o) / det(o2), the group index [O2 : O].  (Equivalent to: no over-order of p-power index
    other than O itself; an over-order whose index is divisible by p contains one of p-power index.) *)
From RNT.Refine Require Import Round2W4PZ Round2W4Max.
From RNT.Refine Require Round2W4Table Round2W4Index.

(** [P] pz_core (Cohen, A Course in Computational Algebraic Number Theory, Thm 6.1.3; Pohst-Zassenhaus Lemma 5.53), in
    the coordinates of [one_step_lattices].  T: the commutative associative deg x deg x deg table of an order, with
    unit; p prime; [i_p] generates the p-radical { x : x^pow = 0 mod p } (model's [pow_mod_p], table reduced as
    [one_step] does), pow = p^k >= deg.  An over-ring O'' with N O'' inside O is given by the set Ll of the coordinate
    vectors of N O'' (N Z^deg inside Ll, Ll * Ll inside N Ll).  If some element w0 / N of O'' is not in O while
    p w0 / N is, then there is u in Z^deg, not in p Z^deg, with u * y in p I_p for every y in I_p: u / p is in the
    multiplier ring of I_p and not in O -- the Round 2 step enlarges O.
    Proof: element by element in the [comRingType] of the table (Round2W4Core/Ring); nilpotent elements modulo p have
    deg-th power 0 (a nilpotent deg x deg matrix over F_p, regular representation of Round2W3Frob). *)
Theorem pz_core : forall (deg : nat) (p : Z) (T : MultTable.table) (k : nat) (i_p : list (list Z)) (N : Z)
    (Ll : list Z -> Prop) (w0 : list Z),
  (1 <= deg)%nat -> prime p ->
  MultTableOps.cube deg T = true -> AlgNormMx.tcomm T deg -> AlgNormMx.tassoc T deg ->
  (exists one, length one = deg /\ forall x, length x = deg -> AlgNormMx.tmul T deg one x = x) ->
  let tbl := map (map (map (fun x => Z.rem (Z.rem x (p * p)) p))) T in
  let pow := p ^ Z.of_nat k in
  Z.of_nat deg <= pow ->
  wf deg i_p ->
  (forall x, In_rowspanZ deg x i_p <->
     length x = deg /\ exists r, pow_mod_p x pow tbl p = Done r /\ forall j, (j < deg)%nat -> (p | nth j r 0)) ->
  0 < N ->
  (forall y, length y = deg -> Ll (vscale N y)) ->
  (forall a b, length a = deg -> length b = deg -> Ll a -> Ll b ->
     exists c, ssrbool.and3 (length c = deg) (Ll c) (AlgNormMx.tmul T deg a b = vscale N c)) ->
  length w0 = deg -> Ll w0 ->
  (forall j, (N | p * nth j w0 0)) ->
  ~ (forall j, (N | nth j w0 0)) ->
  exists u, ssrbool.and3 (length u = deg) (~ (forall j, (p | nth j u 0)))
    (forall y, In_rowspanZ deg y i_p ->
       exists z, In_rowspanZ deg z i_p /\ AlgNormMx.tmul T deg u y = vscale p z).
Proof. exact Round2W4Table.pz_table. Qed.

(** [P] step_zero_p_maximal (Pohst-Zassenhaus, the hard direction): if the Round 2 step at the prime p on an order O
    returns howmany = 0 (index 1) then O is p-maximal *)
Theorem step_zero_p_maximal : forall f deg o p o',
  PolyZ.canonZ f = true -> length f = S deg -> (1 <= deg)%nat -> prime p ->
  is_order f deg o -> one_step f o p = Done (o', 0) -> p_maximal f deg p o.
Proof. exact Round2W4PZ.step_zero_p_maximal. Qed.

(** [P] p_maximal_step_zero (the easy direction): on a p-maximal order the step returns howmany = 0 (its result is an
    over-order of index p^howmany) *)
Theorem p_maximal_step_zero : forall f deg o p o' hh,
  PolyZ.canonZ f = true -> length f = S deg -> (1 <= deg)%nat -> prime p ->
  is_order f deg o -> p_maximal f deg p o -> one_step f o p = Done (o', hh) -> hh = 0.
Proof. exact Round2W4PZ.p_maximal_step_zero. Qed.

Theorem step_zero_iff_p_maximal : forall f deg o p o' hh,
  PolyZ.canonZ f = true -> length f = S deg -> (1 <= deg)%nat -> prime p ->
  is_order f deg o -> one_step f o p = Done (o', hh) ->
  (hh = 0 <-> p_maximal f deg p o).
Proof. exact Round2W4PZ.step_zero_iff_p_maximal. Qed.

(** [P] small_disc_p_maximal: if p^2 does not divide the discriminant of O then O is p-maximal
    (disc(O) = disc(O2) * index^2 and disc(O2) is an integer: C15 [order_disc_trace_form]) *)
Theorem small_disc_p_maximal : forall m f deg,
  PolyZ.canonZ f = true -> length f = S deg -> (1 <= deg)%nat -> 2 * Z.of_nat deg < two64 ->
  forall o p d, order_disc m o f = Done d -> ~ (p * p | d) -> p_maximal f deg p o.
Proof. exact Round2W4Max.small_disc_p_maximal. Qed.

(** [P] p_maximal_transfer: p-maximality passes to a larger order whose index is prime to p
    (disc(O1) = disc(O2) * c with c prime to p) *)
Theorem p_maximal_transfer : forall m f deg,
  PolyZ.canonZ f = true -> length f = S deg -> (1 <= deg)%nat -> 2 * Z.of_nat deg < two64 ->
  forall o1 o2 p d1 d2 c,
  prime p -> is_order f deg o1 -> is_order f deg o2 ->
  (forall t, (t < deg)%nat -> in_spanQ deg (nth t o1 []) o2) ->
  order_disc m o1 f = Done d1 -> order_disc m o2 f = Done d2 -> d1 <> 0 -> d1 = d2 * c -> rel_prime p c ->
  p_maximal f deg p o1 -> p_maximal f deg p o2.
Proof. exact Round2W4Max.p_maximal_transfer. Qed.

(** [P] prime_loop_p_maximal: the [while] loop of the driver at a prime p, on an order whose discriminant is p^e r <> 0
    with p not dividing r and 0 <= e < 2^64, never panics, and when it returns (it does with the fuel e < 2 fuel) the
    result is an order that contains the input, whose discriminant is that of the input divided by a power of p, and
    which is p-maximal: the loop exits with p^2 not dividing the discriminant, or after a step that returned 0 *)
Theorem prime_loop_p_maximal : forall m f deg,
  PolyZ.canonZ f = true -> length f = S deg -> (1 <= deg)%nat -> 2 * Z.of_nat deg < two64 ->
  forall p, prime p ->
  forall fuel o e r d,
  is_order f deg o -> order_disc m o f = Done d -> d = p ^ e * r -> r <> 0 -> rel_prime p r -> 0 <= e < two64 ->
  match prime_loop fuel m f o p e with
  | Done o' => is_order f deg o' /\ (forall t, (t < deg)%nat -> in_spanQ deg (nth t o []) o') /\
               (exists d' s, order_disc m o' f = Done d' /\ 0 <= s /\ d = d' * p ^ s) /\
               p_maximal f deg p o'
  | Panic _ => False
  | OutOfFuel => 2 * Z.of_nat fuel <= e
  end.
Proof. exact Round2W4Max.prime_loop_pmax. Qed.

(** [P] find_integral_basis_p_maximal: for every monic f of degree deg >= 1 (2 deg < 2^64) whose starting order has a
    non-zero discriminant of fewer than 2^64 bits, in both build profiles the driver returns an order that is
    p-maximal at EVERY prime p (the primes whose square divides the discriminant of the starting order are visited
    by the loop; at the others p^2 does not divide the discriminant) *)
Theorem find_integral_basis_p_maximal : forall m f deg,
  PolyZ.canonZ f = true -> length f = S deg -> (1 <= deg)%nat -> 2 * Z.of_nat deg < two64 -> nth deg f 0 = 1 ->
  (forall o0 d0, non_monic_initial_order f = Done o0 -> order_disc m o0 f = Done d0 ->
     d0 <> 0 /\ Z.log2 (Z.abs d0) < two64) ->
  exists O, find_integral_basis m f = Done O /\ is_order f deg O /\
            forall p, prime p -> p_maximal f deg p O.
Proof. exact Round2W4Max.find_integral_basis_p_maximal. Qed.

(** [P] find_integral_basis_maximal: ... hence the returned order O is THE maximal order: it contains 1, is closed under
    multiplication, and every over-order O2 (a lattice closed under multiplication that contains O) has index 1 (or
    -1: [order_index] is a quotient of determinants, negative when the basis of O2 has the other orientation) and the
    same lattice as O: every row of O2 is an integer combination of rows of O.  (A prime p dividing the index would
    contradict p-maximality.) *)
Theorem find_integral_basis_maximal : forall m f deg,
  PolyZ.canonZ f = true -> length f = S deg -> (1 <= deg)%nat -> 2 * Z.of_nat deg < two64 -> nth deg f 0 = 1 ->
  (forall o0 d0, non_monic_initial_order f = Done o0 -> order_disc m o0 f = Done d0 ->
     d0 <> 0 /\ Z.log2 (Z.abs d0) < two64) ->
  exists O, find_integral_basis m f = Done O /\ is_order f deg O /\
    forall o2, over_order f deg O o2 ->
      (order_index o2 O = Done 1 \/ order_index o2 O = Done (-1)) /\
      forall t, (t < deg)%nat -> in_spanQ deg (nth t o2 []) O.
Proof. exact Round2W4Max.find_integral_basis_maximal. Qed.

(** [P] over_unit_equal: an over-lattice in which a stored basis has index 1 or -1 is the same lattice *)
Theorem over_unit_equal : forall n (o o2 : qmat) (i : Z),
  lower_from n 0 o -> length o2 = n -> Forall (fun r => length r = n) o2 ->
  (forall t, (t < n)%nat -> in_spanQ n (nth t o []) o2) ->
  order_index o2 o = Done i -> (i = 1 \/ i = -1) ->
  forall t, (t < n)%nat -> in_spanQ n (nth t o2 []) o.
Proof. exact Round2W4Index.over_unit_equal. Qed.

(** ** Non-vacuity (fourth wave) *)

(** the definitions are not trivially true: Z[sqrt -3] (the starting order of x^2 + 3) is NOT 2-maximal -- the maximal
    order <1, (1 + sqrt -3)/2> is an over-order in which it has index 2 -- and, in accordance with
    [step_zero_iff_p_maximal], the step at 2 returns howmany = 1 on it *)
Example w4_not_p_maximal :
  match non_monic_initial_order [3; 0; 1], find_integral_basis Checked [3; 0; 1] with
  | Done o0, Done om =>
      over_order [3; 0; 1] 2 o0 om /\ order_index om o0 = Done 2 /\ ~ p_maximal [3; 0; 1] 2 2 o0 /\
      match one_step [3; 0; 1] o0 2 with Done (_, h) => h = 1 | _ => False end
  | _, _ => False
  end.
Proof.
  vm_compute non_monic_initial_order. vm_compute find_integral_basis. cbv iota.
  match goal with |- over_order _ _ ?a ?b /\ _ => set (o0 := a); set (om := b) end.
  assert (OO : over_order [3; 0; 1] 2 o0 om).
  { split; [reflexivity|]. split; [repeat constructor|]. split; [vm_compute; eexists; reflexivity|].
    intros [|[|t]] Ht.
    - exists [1; 0]. split; [reflexivity|]. intros [|[|j]] Hj; try (apply Qc_is_canon; reflexivity). exfalso. lia.
    - exists [-1; 2]. split; [reflexivity|]. intros [|[|j]] Hj; try (apply Qc_is_canon; reflexivity). exfalso. lia.
    - exfalso. lia. }
  assert (I2 : order_index om o0 = Done 2) by (vm_compute; reflexivity).
  split; [exact OO|]. split; [exact I2|]. split.
  - intros PM. apply (PM _ 2 OO I2). exists 1. reflexivity.
  - vm_compute. reflexivity.
Qed.

(** the hypotheses of [step_zero_iff_p_maximal] / [step_zero_p_maximal]: the maximal order of Q(sqrt -3) is an order in
    the sense of [is_order] (by [find_integral_basis_no_panic_monic] and [w4_no_panic_hyp]), 2 and 3 are prime, and the
    steps at 2 and at 3 return 0 on it: it is 2-maximal and 3-maximal *)
Example w4_step_zero_hyp :
  prime 2 /\ prime 3 /\
  match find_integral_basis Checked [3; 0; 1] with
  | Done om => (exists o', one_step [3; 0; 1] om 2 = Done (o', 0)) /\ (exists o', one_step [3; 0; 1] om 3 = Done (o', 0))
  | _ => False end.
Proof.
  split; [exact prime_2|]. split; [exact prime_3|].
  vm_compute find_integral_basis. cbv iota. split; vm_compute; eexists; reflexivity.
Qed.

(** [small_disc_p_maximal] on Dedekind's cubic: the result has discriminant -503 (prime): p^2 divides it for no p *)
Example w4_dedekind_disc :
  match find_integral_basis Checked [-8; -2; -1; 1] with
  | Done om => order_disc Checked om [-8; -2; -1; 1] = Done (-503) /\ ~ (2 * 2 | -503)
  | _ => False end.
Proof.
  vm_compute find_integral_basis. cbv iota. split; [vm_compute; reflexivity|].
  intros [q Hq]. lia.
Qed.

(** the hypotheses of [find_integral_basis_maximal] on x^2 + 3, x^2 + 12 and Dedekind's cubic are those of
    [find_integral_basis_no_panic_monic] ([w4_no_panic_hyp]); the degree bound: *)
Example w4_maximal_hyp : 2 * Z.of_nat 2 < two64 /\ 2 * Z.of_nat 3 < two64.
Proof. split; reflexivity. Qed.

(** [pz_core] concretely on Z[sqrt -3] (T below), p = 2, k = 1, I_p = <(1,1), (-2,0)>: the over-ring O'' = maximal order,
    N = 2, Ll = { v : v0 = v1 mod 2 } = coordinates of 2 O'', w0 = (1, 1) (w0 / 2 = (1 + sqrt -3)/2 is in O'' and not in O,
    2 w0 / 2 is in O); the conclusion holds with u = (1, 1): u * (1,1) = (-2, 2) = 2 (-1, 1) and u * (-2, 0) = 2 (-1, -1) *)
Example w4_pz_core_data :
  let T := [[[1; 0]; [0; 1]]; [[0; 1]; [-3; 0]]] in
  AlgNormMx.tmul T 2 [1; 1] [1; 1] = vscale 2 [-1; 1] /\ AlgNormMx.tmul T 2 [1; 1] [-2; 0] = vscale 2 [-1; -1] /\
  In_rowspanZ 2 [-1; 1] [[1; 1]; [-2; 0]] /\ In_rowspanZ 2 [-1; -1] [[1; 1]; [-2; 0]] /\
  ~ (forall j, (2 | nth j [1; 1] 0)).
Proof.
  split; [apply (Round2W3Mul.tmul_by_mt (n := 2%nat)); reflexivity|].
  split; [apply (Round2W3Mul.tmul_by_mt (n := 2%nat)); reflexivity|].
  split; [exists [1; 1]; split; reflexivity|]. split; [exists [-1; 0]; split; reflexivity|].
  intros Hall. destruct (Hall 0%nat) as [q Hq]. cbn in Hq. lia.
Qed.

(** ** the formulation with over-orders of p-power index; non-monic f under the flag *)

(** [p_maximal_pow f deg p o]: [o] has index p^k in no over-order unless k = 0 (the usual wording of p-maximality).
    [P] step_zero_equivalences: on an order, at a prime, for a returning step (it always returns: [order_step_returns]):
    howmany = 0 <-> p divides the index of O in no over-order <-> O has no over-order of index p^k with k > 0 *)
Theorem step_zero_equivalences : forall f deg o p o' hh,
  PolyZ.canonZ f = true -> length f = S deg -> (1 <= deg)%nat -> prime p ->
  is_order f deg o -> one_step f o p = Done (o', hh) ->
  (hh = 0 <-> p_maximal f deg p o) /\ (p_maximal f deg p o <-> p_maximal_pow f deg p o).
Proof. exact Round2W4PZ.step_zero_equivalences. Qed.

(** [P] all_p_maximal_maximal: an order that is p-maximal at every prime is maximal *)
Theorem all_p_maximal_maximal : forall f deg O,
  is_order f deg O -> (forall p, prime p -> p_maximal f deg p O) ->
  forall o2, over_order f deg O o2 ->
    (order_index o2 O = Done 1 \/ order_index o2 O = Done (-1)) /\
    forall t, (t < deg)%nat -> in_spanQ deg (nth t o2 []) O.
Proof. exact Round2W4Max.all_p_maximal_maximal. Qed.

(** [C] find_integral_basis_maximal_partial: the same as [find_integral_basis_maximal] for ANY f with non-zero leading
    coefficient (monic or not), PROVIDED the starting order Z[theta] cap Z[1/theta] is computed and closed under
    multiplication (flag computed by the model: [non_monic_initial_order] and [Order::get_mult_table] return; always the
    case for monic f, [monic_start_table]).
    Full statement: the same without the flag (the starting order of every non-constant f is a ring: not proved). *)
Theorem find_integral_basis_maximal_partial : forall m f deg,
  PolyZ.canonZ f = true -> length f = S deg -> (1 <= deg)%nat -> 2 * Z.of_nat deg < two64 ->
  (exists o0 T0, non_monic_initial_order f = Done o0 /\ get_mult_table o0 f = Done T0) ->
  (forall o0 d0, non_monic_initial_order f = Done o0 -> order_disc m o0 f = Done d0 ->
     d0 <> 0 /\ Z.log2 (Z.abs d0) < two64) ->
  exists O, find_integral_basis m f = Done O /\ is_order f deg O /\
    forall o2, over_order f deg O o2 ->
      (order_index o2 O = Done 1 \/ order_index o2 O = Done (-1)) /\
      forall t, (t < deg)%nat -> in_spanQ deg (nth t o2 []) O.
Proof. exact Round2W4Max.find_integral_basis_maximal_flag. Qed.

Theorem find_integral_basis_p_maximal_partial : forall m f deg,
  PolyZ.canonZ f = true -> length f = S deg -> (1 <= deg)%nat -> 2 * Z.of_nat deg < two64 ->
  (exists o0 T0, non_monic_initial_order f = Done o0 /\ get_mult_table o0 f = Done T0) ->
  (forall o0 d0, non_monic_initial_order f = Done o0 -> order_disc m o0 f = Done d0 ->
     d0 <> 0 /\ Z.log2 (Z.abs d0) < two64) ->
  exists O, find_integral_basis m f = Done O /\ is_order f deg O /\
            forall p, prime p -> p_maximal f deg p O.
Proof. exact Round2W4Max.find_integral_basis_p_maximal_flag. Qed.

(** non-vacuity: the flag and the discriminant hypothesis on the non-monic 2x^3 + x + 1 (d0 = -116 = -2^2 * 29) *)
Example w4_flag_nonmonic :
  PolyZ.canonZ [1; 1; 0; 2] = true /\
  (exists o0 T0, non_monic_initial_order [1; 1; 0; 2] = Done o0 /\ get_mult_table o0 [1; 1; 0; 2] = Done T0) /\
  forall m o0 d0, non_monic_initial_order [1; 1; 0; 2] = Done o0 -> order_disc m o0 [1; 1; 0; 2] = Done d0 ->
    d0 <> 0 /\ Z.log2 (Z.abs d0) < two64.
Proof.
  split; [reflexivity|]. split.
  - destruct (non_monic_initial_order [1; 1; 0; 2]) as [oa| |] eqn:E0; [|vm_compute in E0; discriminate..].
    assert (X : match non_monic_initial_order [1; 1; 0; 2] with
                | Done ob => match get_mult_table ob [1; 1; 0; 2] with Done _ => True | _ => False end
                | _ => False end) by (vm_compute; exact I).
    rewrite E0 in X. destruct (get_mult_table oa [1; 1; 0; 2]) as [Ta| |] eqn:G; [exists oa, Ta; split; [reflexivity|exact G]|destruct X..].
  - intros m o0 d0 N0 D0; vm_compute in N0; injection N0 as <-;
      destruct m; vm_compute in D0; injection D0 as <-; split; try discriminate; reflexivity.
Qed.

(** * Fifth wave: non-monic f -- the starting order Z[theta] cap Z[1/theta] is always an order; no flag *)
From RNT.Refine Require Import Round2W5Driver.
From RNT.Refine Require OrderW3Span.

(** [P] non_monic_start_is_order (Dedekind).  For EVERY f = a_n x^n + .. + a_0 of degree n >= 1 with a_n <> 0 (a
    canonical coefficient list: no trailing zero; any sign, not necessarily primitive, irreducible or squarefree),
    [non_monic_initial_order f] returns (its generator matrix 1, w_1, .., w_(n-1), w_i = a_n x^i + .. + a_(n-i+1) x, is
    lower triangular with diagonal 1, a_n, .., a_n), and the stored basis is an order in the sense of [is_order]: lower
    triangular with positive diagonal, contains 1, and [Order::get_mult_table] returns on it -- every product of two
    basis elements in Q[x]/(f) has integer coordinates.  Proof: with b_u = a_(n-u) and
    D_k = b_0 x^k + .. + b_(k-1) x (all k >= 0) the polynomial identity
      D_i D_j = sum_(u < i) b_u D_(i+j-u) - sum_(v < i) b_(j+v) D_(i-v)
    holds in any commutative ring (Round2W5Ident.DP_mul, induction on i from D_(k+1) = x D_k + b_k x); w_k = D_k for
    k < n, D_n = f - a_0 and D_k = x^(k-n) f for k > n, so modulo f every product w_i w_j is an integer combination of
    1, w_1, .., w_(n-1); [hnf_reduce] keeps the lattice. *)
Theorem non_monic_start_is_order : forall f deg,
  PolyZ.canonZ f = true -> length f = S deg -> (1 <= deg)%nat ->
  exists o0, non_monic_initial_order f = Done o0 /\ is_order f deg o0.
Proof. exact Round2W5Driver.non_monic_start_is_order. Qed.

(** [P] the flag of the [C] theorems above ([find_integral_basis_order_partial], [.._maximal_partial],
    [.._p_maximal_partial]) holds for every such f *)
Theorem non_monic_start_table : forall f deg o0,
  PolyZ.canonZ f = true -> length f = S deg -> (1 <= deg)%nat ->
  non_monic_initial_order f = Done o0 -> exists T0, get_mult_table o0 f = Done T0.
Proof. exact Round2W5Driver.non_monic_start_table. Qed.

Theorem non_monic_flag : forall f deg,
  PolyZ.canonZ f = true -> length f = S deg -> (1 <= deg)%nat ->
  exists o0 T0, non_monic_initial_order f = Done o0 /\ get_mult_table o0 f = Done T0.
Proof. exact Round2W5Driver.non_monic_flag. Qed.

(** [P] Dedekind's lemma on the generators as written by [non_monic_initial_order] (before [hnf_reduce]; row 0 = 1,
    row i = a_n x^i + .. + a_(n-i+1) x, C15 [nm_rows_entry]): [Order::get_mult_table] returns on them *)
Theorem dedekind_generators_table : forall f deg,
  PolyZ.canonZ f = true -> length f = S deg -> (1 <= deg)%nat ->
  exists T, get_mult_table (OrderW3Span.nm_rows f deg) f = Done T.
Proof. exact Round2W5Driver.nm_rows_table. Qed.

(** [P] find_integral_basis_order: the statement of [find_integral_basis_order_partial] without its flag, for every f
    of degree >= 1 with non-zero leading coefficient, in both build profiles.  The starting order is computed and is
    an order; if the driver returns, its result is an order; every panic of the driver is a panic of
    [o.discriminant(theta)], of the trial factorisation (discriminant 0: f not squarefree), or the u64 overflow of
    [e -= 2 * howmany] -- no panic of [non_monic_initial_order], and no assertion, index, unwrap or division panic
    inside [one_step], is reachable. *)
Theorem find_integral_basis_order : forall m f deg,
  PolyZ.canonZ f = true -> length f = S deg -> (1 <= deg)%nat ->
  exists o0, non_monic_initial_order f = Done o0 /\ is_order f deg o0 /\
    match find_integral_basis m f with
    | Done om => is_order f deg om
    | Panic t =>
        order_disc m o0 f = Panic t \/
        exists disc, order_disc m o0 f = Done disc /\
          (Elementary.trial_factorize (Z.abs disc) = Panic t \/ t = POverflow)
    | OutOfFuel => True
    end.
Proof. exact Round2W5Driver.find_integral_basis_order_all. Qed.

(** [P] find_integral_basis_no_panic: [find_integral_basis_no_panic_monic] for ALL f with non-zero leading coefficient:
    degree deg >= 1 (2 deg < 2^64), starting order of non-zero discriminant d0 with fewer than 2^64 bits; in both build
    profiles the driver returns (no panic, enough fuel) and the result is an order *)
Theorem find_integral_basis_no_panic : forall m f deg,
  PolyZ.canonZ f = true -> length f = S deg -> (1 <= deg)%nat -> 2 * Z.of_nat deg < two64 ->
  (forall o0 d0, non_monic_initial_order f = Done o0 -> order_disc m o0 f = Done d0 ->
     d0 <> 0 /\ Z.log2 (Z.abs d0) < two64) ->
  exists O, find_integral_basis m f = Done O /\ is_order f deg O.
Proof. exact Round2W5Driver.find_integral_basis_no_panic. Qed.

(** [P] find_integral_basis_p_maximal_all: ... and the returned order is p-maximal at every prime p *)
Theorem find_integral_basis_p_maximal_all : forall m f deg,
  PolyZ.canonZ f = true -> length f = S deg -> (1 <= deg)%nat -> 2 * Z.of_nat deg < two64 ->
  (forall o0 d0, non_monic_initial_order f = Done o0 -> order_disc m o0 f = Done d0 ->
     d0 <> 0 /\ Z.log2 (Z.abs d0) < two64) ->
  exists O, find_integral_basis m f = Done O /\ is_order f deg O /\
            forall p, prime p -> p_maximal f deg p O.
Proof. exact Round2W5Driver.find_integral_basis_p_maximal_all. Qed.

(** [P] find_integral_basis_maximal_all: ... hence it is THE maximal order: index 1 (or -1) in every over-order, which
    has the same lattice ([find_integral_basis_maximal] without the hypothesis "f monic") *)
Theorem find_integral_basis_maximal_all : forall m f deg,
  PolyZ.canonZ f = true -> length f = S deg -> (1 <= deg)%nat -> 2 * Z.of_nat deg < two64 ->
  (forall o0 d0, non_monic_initial_order f = Done o0 -> order_disc m o0 f = Done d0 ->
     d0 <> 0 /\ Z.log2 (Z.abs d0) < two64) ->
  exists O, find_integral_basis m f = Done O /\ is_order f deg O /\
    forall o2, over_order f deg O o2 ->
      (order_index o2 O = Done 1 \/ order_index o2 O = Done (-1)) /\
      forall t, (t < deg)%nat -> in_spanQ deg (nth t o2 []) O.
Proof. exact Round2W5Driver.find_integral_basis_maximal_all. Qed.

(** ** Non-vacuity (fifth wave) *)

(** the hypotheses on the non-monic 2x^3 + x + 1 (d0 = -116), 6x^5 - 7x^4 + 6x^3 - 7x^2 + 6x + 5 (d0 = 9851980752 =
    7601837 * 36^2) and -3x^2 + x + 5 (negative leading coefficient, d0 = 61): canonical, degree >= 1, discriminant of the
    starting order non-zero with few bits, in both profiles *)
Example w5_hyp : forall f, In f [[1; 1; 0; 2]; [5; 6; -7; 6; -7; 6]; [5; 1; -3]] ->
  PolyZ.canonZ f = true /\ (1 <= length f - 1)%nat /\ 2 * Z.of_nat (length f - 1) < two64 /\
  nth (length f - 1) f 0 <> 1 /\
  forall m o0 d0, non_monic_initial_order f = Done o0 -> order_disc m o0 f = Done d0 ->
    d0 <> 0 /\ Z.log2 (Z.abs d0) < two64.
Proof.
  intros f [<-|[<-|[<-|[]]]];
    (split; [reflexivity|]; split; [cbn; lia|]; split; [reflexivity|]; split; [cbn; discriminate|]);
    intros m o0 d0 N0 D0; vm_compute in N0; injection N0 as <-;
    destruct m; vm_compute in D0; injection D0 as <-; split; try discriminate; reflexivity.
Qed.

(** what the model returns on them: (discriminant, index over the starting order) = (-116, 1), (7601837, 36), (61, 1) *)
Example w5_results :
  match ib_find Checked [1; 1; 0; 2], ib_find Checked [5; 6; -7; 6; -7; 6], ib_find Checked [5; 1; -3] with
  | Done (_, d1, i1), Done (_, d2, i2), Done (_, d3, i3) =>
      (d1 =? -116) && (i1 =? 1) && (d2 =? 7601837) && (i2 =? 36) && (d3 =? 61) && (i3 =? 1)
  | _, _, _ => false
  end = true.
Proof. vm_compute. reflexivity. Qed.

(** the starting order of -3x^2 + x + 5: generators 1, -3 theta; stored basis 1, 3 theta; (3 theta)^2 = 15 + 3 theta *)
Example w5_start_neg :
  match non_monic_initial_order [5; 1; -3] with
  | Done o0 => map (map this) o0 = [[1#1; 0#1]; [0#1; 3#1]]%Q /\
               get_mult_table o0 [5; 1; -3] = Done [[[1; 0]; [0; 1]]; [[0; 1]; [15; 1]]]
  | _ => False end /\
  map (map this) (OrderW3Span.nm_rows [5; 1; -3] 2) = [[1#1; 0#1]; [0#1; -3#1]]%Q.
Proof. vm_compute. auto. Qed.

(** the generators of 6x^5 - 7x^4 + 6x^3 - 7x^2 + 6x + 5 and one line of their table:
    w_1 w_4 = a_5 (f - a_0) - a_1 w_1 = -30 - 6 w_1 and w_2 w_3 = -30 - 6 w_1 + 7 w_2 - 7 w_4 modulo f (degree 5: reduced) *)
Example w5_start_deg5 :
  let f := [5; 6; -7; 6; -7; 6] in
  map (map this) (OrderW3Span.nm_rows f 5)
    = [[1#1; 0#1; 0#1; 0#1; 0#1]; [0#1; 6#1; 0#1; 0#1; 0#1]; [0#1; -7#1; 6#1; 0#1; 0#1];
       [0#1; 6#1; -7#1; 6#1; 0#1]; [0#1; -7#1; 6#1; -7#1; 6#1]]%Q /\
  match get_mult_table (OrderW3Span.nm_rows f 5) f with
  | Done T => nth 4 (nth 1 T []) [] = [-30; -6; 0; 0; 0] /\ nth 3 (nth 2 T []) [] = [-30; -6; 7; 0; -7]
  | _ => False end.
Proof. vm_compute. auto. Qed.

(** [is_order] is not trivially true for non-monic f: the power basis 1, theta, theta^2 of 2x^3 + x + 1 is NOT closed under
    multiplication (theta^3 = -(theta + 1)/2): the [is_integer] assertion of [get_mult_table] fires *)
Example w5_power_basis_not_ring :
  get_mult_table (identity fopsQc 3) [1; 1; 0; 2] = Panic PAssert.
Proof. vm_compute. reflexivity. Qed.

(** * Eighth wave: the maximal order is unique and contains every order; the discriminant does not depend on the generator
    (theta + k, -theta, c theta)

    [weak_order f n o] (W8C06Props): [o] is an n x n rational matrix (no normal form required) whose rows span a lattice that
    contains 1 and on which [Order::get_mult_table] returns (closed under multiplication, integer structure constants);
    every [is_order] is one.  [no_larger_order f n o]: every over-order of [o] lies in the lattice of [o] -- the conclusion of
    [find_integral_basis_maximal_all].  [lattice_sub n o1 o2]: every row of [o1] is an integer combination of the rows of [o2].
    f need not be irreducible: the argument is that of commutative algebras of finite rank over Q.
    Proofs: W8C06Alg (Q[x]/(f) on coordinate vectors, change of generator, trace form), W8C06Hnf (basis of a finitely generated
    subgroup of Z^n, from C02), W8C06Lat (product module O1 O2), W8C06Trans, W8C06Bridge, W8C06Main. *)
From RNT.Refine Require Import W8C06Main W8C06Props.

(** [P] is_order_weak_order *)
Theorem is_order_weak_order : forall f n o, is_order f n o -> weak_order f n o.
Proof. exact W8C06Props.is_order_weak_order. Qed.

(** [P] maximal_order_contains: an order O1 without larger order contains EVERY order O2 of Q[x]/(f) (not only those that contain
    O1).  Proof: the product module O1 O2 (integer combinations of the products w_i v_j) contains O1 and O2 (each contains 1), is
    closed under multiplication because the algebra is commutative ((O1 O2)(O1 O2) = (O1 O1)(O2 O2)), is finitely generated of
    full rank, hence has a basis ([HNF::new] of its generators after clearing denominators: C02 hnf_new_correct) on which
    [get_mult_table] returns (C14 get_mult_table_iff): it is an over-order of O1, so it lies in O1. *)
Theorem maximal_order_contains : forall f n O1 O2,
  PolyZ.canonZ f = true -> length f = S n -> (1 <= n)%nat ->
  weak_order f n O1 -> no_larger_order f n O1 -> weak_order f n O2 -> lattice_sub n O2 O1.
Proof. exact W8C06Props.maximal_order_contains. Qed.

(** [P] maximal_order_unique: two orders without larger order have the same lattice *)
Theorem maximal_order_unique : forall f n O1 O2,
  PolyZ.canonZ f = true -> length f = S n -> (1 <= n)%nat ->
  weak_order f n O1 -> no_larger_order f n O1 -> weak_order f n O2 -> no_larger_order f n O2 ->
  lattice_sub n O1 O2 /\ lattice_sub n O2 O1.
Proof. exact W8C06Props.maximal_order_unique. Qed.

(** [P] driver_largest_order: under the hypotheses of [find_integral_basis_maximal_all], the order returned by the driver contains
    every order of Q[x]/(f): it is the largest order (for irreducible f: the ring of integers) *)
Theorem driver_largest_order : forall m f n O O2,
  PolyZ.canonZ f = true -> length f = S n -> (1 <= n)%nat -> 2 * Z.of_nat n < two64 ->
  (forall o0 d0, non_monic_initial_order f = Done o0 -> order_disc m o0 f = Done d0 ->
     d0 <> 0 /\ Z.log2 (Z.abs d0) < two64) ->
  find_integral_basis m f = Done O -> weak_order f n O2 -> lattice_sub n O2 O.
Proof. exact W8C06Props.driver_largest_order. Qed.

(** [P] maximal_order_same_stored: ... hence (C15 [order_canonical]: HNF canonicity of [Order::from_basis]) [from_basis] has the same
    outcome on any two orders without larger order, and two such orders that are stored normal forms (fixed points of [from_basis])
    are EQUAL as lists of rationals *)
From RNT.Refine Require W8C06Canon.
Theorem maximal_order_same_stored : forall f n O1 O2,
  PolyZ.canonZ f = true -> length f = S n -> (1 <= n)%nat ->
  weak_order f n O1 -> no_larger_order f n O1 -> weak_order f n O2 -> no_larger_order f n O2 ->
  from_basis O1 = from_basis O2.
Proof. exact W8C06Canon.maximal_order_same_stored. Qed.

Theorem maximal_order_stored_equal : forall f n O1 O2,
  PolyZ.canonZ f = true -> length f = S n -> (1 <= n)%nat ->
  weak_order f n O1 -> no_larger_order f n O1 -> weak_order f n O2 -> no_larger_order f n O2 ->
  from_basis O1 = Done O1 -> from_basis O2 = Done O2 -> O1 = O2.
Proof. exact W8C06Canon.maximal_order_stored_equal. Qed.

(** the changes of generator on coefficient lists: [poly_shift f k] = f(x + k) (minimal polynomial of theta - k; k < 0 gives
    theta + |k|), by Horner's rule with the model's own [padd] / [pmul]; [poly_scale f c] = c^n f(x / c) = sum a_i c^(n-i) x^i
    (minimal polynomial of c theta, same leading coefficient; c = -1: (-1)^n f(-x), minimal polynomial of -theta) *)
Theorem poly_shift_eval : forall f k x, pof opsZ (poly_shift f k) x = pof opsZ f (x + k).
Proof. exact W8C06Props.poly_shift_eval. Qed.

Theorem poly_shift_length : forall f k, PolyZ.canonZ f = true ->
  PolyZ.canonZ (poly_shift f k) = true /\ length (poly_shift f k) = length f.
Proof. exact W8C06Props.poly_shift_length. Qed.

Theorem poly_scale_length : forall f c, PolyZ.canonZ f = true ->
  PolyZ.canonZ (poly_scale f c) = true /\ length (poly_scale f c) = length f.
Proof. exact W8C06Props.poly_scale_length. Qed.

Example poly_shift_scale_ex :
  poly_shift [-5; 0; 1] 1 = [-4; 2; 1] /\ poly_shift [-8; -2; -1; 1] (-2) = [-16; 14; -7; 1] /\
  poly_scale [-2; 0; 0; 1] (-1) = [2; 0; 0; 1] /\ poly_scale [-5; 0; 1] 2 = [-20; 0; 1] /\
  poly_scale [1; 1; 0; 2] 3 = [27; 9; 0; 2] /\ poly_shift [1; 1; 0; 2] 1 = [4; 7; 6; 2].
Proof. vm_compute. repeat split. Qed.

(** [P] disc_invariant_shift (theta + k): for f of degree n >= 1 and g = f(x + k), both under the hypotheses of
    [find_integral_basis_maximal_all] (non-zero discriminant of the starting order with fewer than 2^64 bits): the orders returned
    by the driver for f and for g have the same [order_disc] -- the discriminant the code reports does not depend on which of the
    two polynomials defines the field.  Proof: x |-> x - k is an isomorphism Q[x]/(g) -> Q[x]/(f) with matrix Phi on coordinates;
    it is multiplicative, so Phi maps the maximal order of g onto a maximal order of f, which has the lattice of the driver's
    result for f ([maximal_order_unique]); the regular representations are conjugate by Phi, so the trace forms of the power bases
    satisfy P_g = Phi P_f Phi^T; both discriminants are det(B)^2 det(P) (C15 order_disc_trace_form, trZ_pform) and two bases of
    one lattice differ by an integer matrix of determinant +-1. *)
Theorem disc_invariant_shift : forall m f k n Of Og,
  PolyZ.canonZ f = true -> length f = S n -> (1 <= n)%nat -> 2 * Z.of_nat n < two64 ->
  (forall o0 d0, non_monic_initial_order f = Done o0 -> order_disc m o0 f = Done d0 ->
     d0 <> 0 /\ Z.log2 (Z.abs d0) < two64) ->
  (forall o0 d0, non_monic_initial_order (poly_shift f k) = Done o0 -> order_disc m o0 (poly_shift f k) = Done d0 ->
     d0 <> 0 /\ Z.log2 (Z.abs d0) < two64) ->
  find_integral_basis m f = Done Of -> find_integral_basis m (poly_shift f k) = Done Og ->
  exists d, order_disc m Of f = Done d /\ order_disc m Og (poly_shift f k) = Done d.
Proof. exact W8C06Props.disc_invariant_shift. Qed.

(** [P] disc_invariant_scale (c theta, c a non-zero integer; the starting orders differ by the index |c|^(n(n-1)/2)) and
    disc_invariant_neg (-theta: c = -1) *)
Theorem disc_invariant_scale : forall m f c n Of Og,
  PolyZ.canonZ f = true -> length f = S n -> (1 <= n)%nat -> 2 * Z.of_nat n < two64 -> c <> 0 ->
  (forall o0 d0, non_monic_initial_order f = Done o0 -> order_disc m o0 f = Done d0 ->
     d0 <> 0 /\ Z.log2 (Z.abs d0) < two64) ->
  (forall o0 d0, non_monic_initial_order (poly_scale f c) = Done o0 -> order_disc m o0 (poly_scale f c) = Done d0 ->
     d0 <> 0 /\ Z.log2 (Z.abs d0) < two64) ->
  find_integral_basis m f = Done Of -> find_integral_basis m (poly_scale f c) = Done Og ->
  exists d, order_disc m Of f = Done d /\ order_disc m Og (poly_scale f c) = Done d.
Proof. exact W8C06Props.disc_invariant_scale. Qed.

Theorem disc_invariant_neg : forall m f n Of Og,
  PolyZ.canonZ f = true -> length f = S n -> (1 <= n)%nat -> 2 * Z.of_nat n < two64 ->
  (forall o0 d0, non_monic_initial_order f = Done o0 -> order_disc m o0 f = Done d0 ->
     d0 <> 0 /\ Z.log2 (Z.abs d0) < two64) ->
  (forall o0 d0, non_monic_initial_order (poly_scale f (-1)) = Done o0 -> order_disc m o0 (poly_scale f (-1)) = Done d0 ->
     d0 <> 0 /\ Z.log2 (Z.abs d0) < two64) ->
  find_integral_basis m f = Done Of -> find_integral_basis m (poly_scale f (-1)) = Done Og ->
  exists d, order_disc m Of f = Done d /\ order_disc m Og (poly_scale f (-1)) = Done d.
Proof. exact W8C06Props.disc_invariant_neg. Qed.

(** [P] the same on the entry point [ib_find] (basis, discriminant, index over the starting order) that the correspondence check
    runs: the two reported discriminants are equal *)
Theorem ib_find_disc_shift : forall m f k n Of df jf Og dg jg,
  PolyZ.canonZ f = true -> length f = S n -> (1 <= n)%nat -> 2 * Z.of_nat n < two64 ->
  (forall o0 d0, non_monic_initial_order f = Done o0 -> order_disc m o0 f = Done d0 ->
     d0 <> 0 /\ Z.log2 (Z.abs d0) < two64) ->
  (forall o0 d0, non_monic_initial_order (poly_shift f k) = Done o0 -> order_disc m o0 (poly_shift f k) = Done d0 ->
     d0 <> 0 /\ Z.log2 (Z.abs d0) < two64) ->
  ib_find m f = Done (Of, df, jf) -> ib_find m (poly_shift f k) = Done (Og, dg, jg) -> df = dg.
Proof. exact W8C06Props.ib_find_disc_shift. Qed.

Theorem ib_find_disc_scale : forall m f c n Of df jf Og dg jg,
  PolyZ.canonZ f = true -> length f = S n -> (1 <= n)%nat -> 2 * Z.of_nat n < two64 -> c <> 0 ->
  (forall o0 d0, non_monic_initial_order f = Done o0 -> order_disc m o0 f = Done d0 ->
     d0 <> 0 /\ Z.log2 (Z.abs d0) < two64) ->
  (forall o0 d0, non_monic_initial_order (poly_scale f c) = Done o0 -> order_disc m o0 (poly_scale f c) = Done d0 ->
     d0 <> 0 /\ Z.log2 (Z.abs d0) < two64) ->
  ib_find m f = Done (Of, df, jf) -> ib_find m (poly_scale f c) = Done (Og, dg, jg) -> df = dg.
Proof. exact W8C06Props.ib_find_disc_scale. Qed.

(** [P] disc_invariant_recip (1 / theta): g = the reversed coefficient list, x^n f(1/x), for f(0) <> 0.  Here x |-> x^-1 mod f,
    x^-1 = -(a_1 + a_2 x + .. + a_n x^(n-1)) / a_0; g(x^-1) = 0 mod f because x^n g(x^-1) = f and x is invertible; the inverse
    substitution is x |-> x^-1 mod g, and (x^-1 mod f)(x^-1 mod g) = x mod g (W8C06Recip). *)
Theorem disc_invariant_recip : forall m f n Of Og,
  PolyZ.canonZ f = true -> length f = S n -> (1 <= n)%nat -> 2 * Z.of_nat n < two64 -> nth 0 f 0 <> 0 ->
  (forall o0 d0, non_monic_initial_order f = Done o0 -> order_disc m o0 f = Done d0 ->
     d0 <> 0 /\ Z.log2 (Z.abs d0) < two64) ->
  (forall o0 d0, non_monic_initial_order (rev f) = Done o0 -> order_disc m o0 (rev f) = Done d0 ->
     d0 <> 0 /\ Z.log2 (Z.abs d0) < two64) ->
  find_integral_basis m f = Done Of -> find_integral_basis m (rev f) = Done Og ->
  exists d, order_disc m Of f = Done d /\ order_disc m Og (rev f) = Done d.
Proof. exact W8C06Props.disc_invariant_recip. Qed.

Theorem ib_find_disc_recip : forall m f n Of df jf Og dg jg,
  PolyZ.canonZ f = true -> length f = S n -> (1 <= n)%nat -> 2 * Z.of_nat n < two64 -> nth 0 f 0 <> 0 ->
  (forall o0 d0, non_monic_initial_order f = Done o0 -> order_disc m o0 f = Done d0 ->
     d0 <> 0 /\ Z.log2 (Z.abs d0) < two64) ->
  (forall o0 d0, non_monic_initial_order (rev f) = Done o0 -> order_disc m o0 (rev f) = Done d0 ->
     d0 <> 0 /\ Z.log2 (Z.abs d0) < two64) ->
  ib_find m f = Done (Of, df, jf) -> ib_find m (rev f) = Done (Og, dg, jg) -> df = dg.
Proof. exact W8C06Props.ib_find_disc_recip. Qed.

Theorem rev_canon_length : forall f, nth 0 f 0 <> 0 -> PolyZ.canonZ (rev f) = true /\ length (rev f) = length f.
Proof. exact W8C06Props.rev_canon_length. Qed.

(** ** Non-vacuity (eighth wave) *)

(** the hypotheses on x^2 - 5 and its shift x^2 + 2x - 4, on x^3 - 2 and x^3 + 2 (-theta), on x^2 - 5 and x^2 - 20 (2 theta), and on
    the non-monic 2x^3 + x + 1 and its shift by 1: canonical, the discriminant of the starting order is non-zero with few bits *)
Example w8_hyp : forall f, In f [[-5; 0; 1]; poly_shift [-5; 0; 1] 1; [-2; 0; 0; 1]; poly_scale [-2; 0; 0; 1] (-1);
                                poly_scale [-5; 0; 1] 2; [1; 1; 0; 2]; poly_shift [1; 1; 0; 2] 1] ->
  PolyZ.canonZ f = true /\ (1 <= length f - 1)%nat /\
  forall m o0 d0, non_monic_initial_order f = Done o0 -> order_disc m o0 f = Done d0 ->
    d0 <> 0 /\ Z.log2 (Z.abs d0) < two64.
Proof.
  intros f [<-|[<-|[<-|[<-|[<-|[<-|[<-|[]]]]]]]];
    (split; [reflexivity|]; split; [vm_compute; lia|]);
    intros m o0 d0 N0 D0; vm_compute in N0; injection N0 as <-;
    destruct m; vm_compute in D0; injection D0 as <-; split; try discriminate; reflexivity.
Qed.

(** what the model returns: discriminant 5 for x^2 - 5 (index 2), x^2 + 2x - 4 (index 2) and x^2 - 20 (index 4); -108 for x^3 - 2 and
    x^3 + 2; -116 for 2x^3 + x + 1 and for its shift 2x^3 + 6x^2 + 7x + 4 *)
Example w8_results :
  match ib_find Checked [-5; 0; 1], ib_find Checked (poly_shift [-5; 0; 1] 1), ib_find Checked (poly_scale [-5; 0; 1] 2) with
  | Done (_, d1, i1), Done (_, d2, i2), Done (_, d3, i3) =>
      (d1 =? 5) && (i1 =? 2) && (d2 =? 5) && (i2 =? 2) && (d3 =? 5) && (i3 =? 4)
  | _, _, _ => false
  end = true /\
  match ib_find Checked [-2; 0; 0; 1], ib_find Checked (poly_scale [-2; 0; 0; 1] (-1)) with
  | Done (_, d1, _), Done (_, d2, _) => (d1 =? -108) && (d2 =? -108)
  | _, _ => false
  end = true /\
  match ib_find Checked [1; 1; 0; 2], ib_find Checked (poly_shift [1; 1; 0; 2] 1) with
  | Done (_, d1, _), Done (_, d2, _) => (d1 =? -116) && (d2 =? -116)
  | _, _ => false
  end = true.
Proof. vm_compute. repeat split. Qed.

(** [maximal_order_contains] / [driver_largest_order] are about more than over-orders: <1, (1 - sqrt 5)/2> (a basis that is not a
    stored normal form: negative diagonal) and Z[sqrt 5] are orders of Q[x]/(x^2 - 5) in the sense of [weak_order]; neither is
    assumed to contain the other *)
Example w8_weak_orders :
  let o1 := [[Q2Qc 1; Q2Qc 0]; [Q2Qc (1 # 2); Q2Qc (-1 # 2)]] in
  let o2 := [[Q2Qc 1; Q2Qc 0]; [Q2Qc 0; Q2Qc 1]] in
  weak_order [-5; 0; 1] 2 o1 /\ weak_order [-5; 0; 1] 2 o2.
Proof.
  split; (split; [reflexivity|]; split; [repeat constructor|]; split; [|vm_compute; eexists; reflexivity]);
    exists [1; 0]; (split; [reflexivity|]); intros [|[|j]] Hj; try (apply Qc_is_canon; reflexivity); exfalso; lia.
Qed.

(** 1 / theta: the hypotheses on -5x^2 + 1 (reversed x^2 - 5), -2x^3 + 1 (reversed x^3 - 2) and -8x^3 - 2x^2 - x + 1 (reversed
    Dedekind cubic), and the discriminants the model returns on them: 5, -108, -503, as for x^2 - 5, x^3 - 2 and the Dedekind cubic *)
Example w8_recip_hyp : forall f, In f [rev [-5; 0; 1]; rev [-2; 0; 0; 1]; rev [-8; -2; -1; 1]] ->
  PolyZ.canonZ f = true /\ (1 <= length f - 1)%nat /\
  forall m o0 d0, non_monic_initial_order f = Done o0 -> order_disc m o0 f = Done d0 ->
    d0 <> 0 /\ Z.log2 (Z.abs d0) < two64.
Proof.
  intros f [<-|[<-|[<-|[]]]];
    (split; [reflexivity|]; split; [vm_compute; lia|]);
    intros m o0 d0 N0 D0; vm_compute in N0; injection N0 as <-;
    destruct m; vm_compute in D0; injection D0 as <-; split; try discriminate; reflexivity.
Qed.

Example w8_recip_results :
  match ib_find Checked (rev [-5; 0; 1]), ib_find Checked (rev [-2; 0; 0; 1]), ib_find Checked (rev [-8; -2; -1; 1]),
        ib_find Checked [-8; -2; -1; 1] with
  | Done (_, d1, _), Done (_, d2, _), Done (_, d3, _), Done (_, d4, _) => (d1 =? 5) && (d2 =? -108) && (d3 =? -503) && (d4 =? -503)
  | _, _, _, _ => false
  end = true.
Proof. vm_compute. reflexivity. Qed.

(** [maximal_order_same_stored] concretely: the maximal order of Q(sqrt 5) given by the basis 1, (1 - sqrt 5)/2 (not a normal form) is
    stored by [from_basis] exactly as the driver's result for x^2 - 5, which is a fixed point of [from_basis] *)
Example w8_stored :
  match find_integral_basis Checked [-5; 0; 1], from_basis [[Q2Qc 1; Q2Qc 0]; [Q2Qc (1 # 2); Q2Qc (-1 # 2)]] with
  | Done om, Done o' => map (map this) om = map (map this) o' /\
                        match from_basis om with Done o'' => map (map this) o'' = map (map this) om | _ => False end
  | _, _ => False
  end.
Proof. vm_compute. split; reflexivity. Qed.
