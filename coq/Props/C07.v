(** * C07: factorisation over Z (src/poly_z/mod.rs).

    Theorems about the model [PolyZFactor.factorize] -- the function the correspondence check runs,
    through [factorize_full], which additionally returns the ghost *final cofactor* (the polynomial
    left in the variable [a] after all exact divisions of the multiplicity loops). The draw stream [r]
    is universally quantified: every statement holds for every sequence of random draws. [OutOfFuel]
    and panics are excluded by the hypothesis [... = Done ...].

    Specification language (MathComp, as in C09): a coefficient list [s] denotes [Poly s : {poly Z}];
    [canonZ s] = no trailing zero (every input the harness builds with [Polynomial::from_raw]).
    Definitions used below (Refine/PolyZFactorMain.v, PolyZFactorTop.v):
      [fpow (f, e) = Poly f ^+ Z.to_nat e],  [fprod l = \prod_(fe <- l) fpow fe];
      [maximal C l]: for every entry [(f, e)] of [l] with [f] non-zero, [f] does not divide
         [C * fprod (entries after it)] -- the cofactor at the time [f] was extracted;
      [prim_pos g]: [g] is normalised, has a positive leading coefficient and is primitive;
      [signed_content a c]: [c] divides every coefficient, every common divisor divides [c],
         and [c > 0 <-> lc a > 0].

    NOT proved (no theorem; checked by the independent oracle on every explored input): irreducibility
    and pairwise distinctness of the returned factors, that the recombination finds every factor
    (Mignotte bound + uniqueness of Hensel lifts), [e_i >= 1], positivity/primitivity of the *last*
    returned factor without the run-computed condition of [factors_primitive_positive_partial],
    termination of the prime search and (for all draw streams) of the modular factorisation. *)
From RNT.Model Require Import Base Poly PolyZFactor.
From mathcomp Require Import all_ssreflect ssralg poly.
From mathcomp Require Import ssrZ.
From RNT.Refine Require Import PolyRefine PolyZ PolyZFactorBasic PolyZFactorMult PolyZFactorMain PolyZFactorTop PolyZFactorEnum PolyZFactorPos.
From RNT.Model Require Resultant.
Set Implicit Arguments.
Unset Strict Implicit.
Import GRing.Theory.
Local Open Scope ring_scope.

(** ** [P] the zero polynomial gives (0, []), a non-zero constant c gives (c, []) *)
Theorem factorize_zero md r : factorize md [::] r = Done (0%Z, [::], r).
Proof. exact (PolyZFactorBasic.factorize_zero md r). Qed.
Theorem factorize_const md (c : Z) r : c <> 0%Z -> factorize md [:: c] r = Done (c, [::], r).
Proof. exact (@PolyZFactorBasic.factorize_const md c r). Qed.
Example ex_const : factorize Checked [:: -6]%Z (rng_of [:: 1; 2; 3]%Z) = Done ((-6)%Z, [::], rng_of [:: 1; 2; 3]%Z).
Proof. by vm_compute. Qed.

(** [factorize] is [factorize_full] without the ghost cofactor *)
Theorem factorize_is_full_run md a r c l r' :
  factorize md a r = Done (c, l, r') -> exists cof, factorize_full md a r = Done (c, l, cof, r').
Proof. exact (@factorize_of_full md a r c l r'). Qed.

(** ** [P] factors_divide: what the exact divisions guarantee.
    With [pp] the primitive part of the input: [pp = cof * prod f_i^e_i] for the ghost cofactor, every
    [e_i >= 0], every [f_i] was divided out as often as possible ([f_i] does not divide the cofactor left
    at that time), and all returned polynomials but the last are [cont_pp] outputs: primitive with a
    positive leading coefficient. *)
Theorem factors_divide md (a : seq Z) r c l cof r' : canonZ a ->
  factorize_full md a r = Done (c, l, cof, r') ->
  [/\ c = (cont_pp a).1, canonZ cof,
      Poly (cont_pp a).2 = Poly cof * fprod l,
      (forall fe, fe \in l -> (0 <= fe.2)%Z) /\ maximal (Poly cof) l
    & l = [::] \/
      exists pps lastf,
        [/\ map fst l = pps ++ [:: lastf], canonZ lastf & forall g, g \in pps -> prim_pos g]].
Proof. exact (@factorize_full_spec md a r c l cof r'). Qed.

(** every returned [f^e] divides the primitive part of the input *)
Theorem factor_power_divides_pp md (a : seq Z) r c l cof r' f e : canonZ a ->
  factorize_full md a r = Done (c, l, cof, r') -> (f, e) \in l ->
  (0 <= e)%Z /\ exists Q : {poly Z}, Poly (cont_pp a).2 = Q * Poly f ^+ Z.to_nat e.
Proof. exact (@factor_power_divides md a r c l cof r' f e). Qed.

(** the first component is the signed content *)
Theorem content_is_signed_content md (a : seq Z) r c l cof r' : canonZ a ->
  factorize_full md a r = Done (c, l, cof, r') -> signed_content a c.
Proof. exact (@factorize_content md a r c l cof r'). Qed.

(** ** [C] factorize_product_partial: conditional on the model-computed final cofactor being 1.
    Full statement (not proved; it needs the completeness of the recombination, i.e. the Mignotte bound
    and the uniqueness of Hensel lifts, and the correctness of the squarefree part):
      forall md a r c l cof r', canonZ a -> factorize_full md a r = Done (c, l, cof, r') -> cof = [:: 1].
    The correspondence check reports any run of the model whose final cofactor is not 1. *)
Theorem factorize_product_partial md (a : seq Z) r c l r' : canonZ a ->
  factorize_full md a r = Done (c, l, [:: 1%Z], r') ->
  Poly a = c *: fprod l /\ a = c *: fprod l :> seq Z.
Proof. exact (@factorize_product md a r c l r'). Qed.

(** ** [C] factors_primitive_positive_partial: *every* returned polynomial (the last one included) is
    normalised, primitive and has a positive leading coefficient, conditional on a value the run computes:
    the gcd of the primitive part and its derivative has a positive leading coefficient.
    Full statement (not proved): the same without the hypothesis [0 < last 0 g]; it holds whenever the
    sub-resultant divisions of [resultant_gcd] are exact (C10), because the result is then normalised by its
    signed content. *)
Theorem factors_primitive_positive_partial md (a : seq Z) r c l cof r' g : canonZ a ->
  (Resultant.resultant_gcd (cont_pp a).2 (pdiff opsZ (cont_pp a).2)).2 = Done g ->
  (0 < last 0 g)%Z ->
  factorize_full md a r = Done (c, l, cof, r') -> forall fe, fe \in l -> prim_pos fe.1.
Proof. exact (@factors_prim_pos md a r c l cof r' g). Qed.
Example ex_gcd_flag :
  let a := [:: -6; -18; -18; -6]%Z in
  (Resultant.resultant_gcd (cont_pp a).2 (pdiff opsZ (cont_pp a).2)).2 = Done [:: 1; 2; 1]%Z
  /\ factorize Checked a (rng_of [::]) = Done ((-6)%Z, [:: ([:: 1; 1], 3)]%Z, rng_of [::]).
Proof. by vm_compute. Qed.

(** ** [P] the factors of the squarefree part multiply back to it: [get_factors_of_squarefree] only
    splits off primitive parts of exact divisors *)
Theorem squarefree_factors_product md (a : seq Z) r fs r' : canonZ a ->
  get_factors_of_squarefree md a r = Done (fs, r') ->
  exists pps lastf,
    [/\ fs = pps ++ [:: lastf], canonZ lastf,
        Poly a = Poly lastf * \prod_(g <- pps) Poly g
      & forall g, g \in pps -> prim_pos g].
Proof. exact (@get_factors_spec md a r fs r'). Qed.

(** ** [P] multiplicity_any: the multiplicity loop never panics (the former [assert!(e <= 5)] is gone),
    its fuel suffices for non-constant divisors, and it returns the true multiplicity of any size *)
Theorem multiplicity_no_panic fuel (a f : seq Z) e t : mult_loop fuel a f e <> Panic t.
Proof. exact (@mult_loop_no_panic fuel a f e t). Qed.
Theorem multiplicity_loops_no_panic fs (a : seq Z) res t : extract_all fs a res <> Panic t.
Proof. exact (@extract_all_no_panic fs a res t). Qed.
Theorem multiplicity_loops_terminate fs (a : seq Z) res : canonZ a -> a != [::] ->
  (forall g, g \in fs -> canonZ g /\ (1 < size g)%N) ->
  exists cof l, extract_all fs a res = Done (cof, l).
Proof. exact (@extract_all_done fs a res). Qed.
Theorem multiplicity_any (a f c : seq Z) (n : nat) : canonZ a -> canonZ f -> canonZ c -> a != [::] ->
  (1 < size f)%N -> Poly a = Poly c * Poly f ^+ n -> (forall Q, Poly c <> Q * Poly f) ->
  mult_loop (length a + 1) a f 0 = Done (c, Z.of_nat n).
Proof. exact (@mult_loop_exact a f c n). Qed.

(** ** [P] the subset enumeration of the model is the mask loop of the code.
    [for bits in 0usize..1 << len { if bits.count_ones() != d { continue } ... }] visits [masks len d]: the
    bit sets of k = 0, 1, ..., 2^len - 1 having d elements, in this order ([bit k i = odd (k / 2^i)]).
    The model's [find_subset] (which does not count to 2^len) is the first success of the loop body over
    exactly this list. *)
Theorem subset_enumeration_is_mask_order R m d (test : list nat -> outcome (option R)) :
  find_subset m d [::] test = first_success test (masks m d).
Proof. exact (@find_subset_masks R m d test). Qed.
Example ex_masks_4_2 :
  masks 4 2 = [:: [:: 0; 1]; [:: 0; 2]; [:: 1; 2]; [:: 0; 3]; [:: 1; 3]; [:: 2; 3]]%N.
Proof. by vm_compute. Qed.

(** ** [P] the deterministic loops that the model runs on fuel: the supplied fuel suffices.
    (The prime search and the modular factorisation stay on fuel: see NOT_PROVED.) *)
(* while pe <= bound { pe *= p; e += 1 }: returns the least power of p above the bound *)
Theorem exponent_loop_spec (p bound : Z) : (2 <= p)%Z ->
  exists e, exp_loop (exp_fuel bound) 1 p bound 0 = Done ((p ^ e)%Z, e)
            /\ (0 <= e)%Z /\ (bound < p ^ e)%Z /\ (e = 0%Z \/ (p ^ (e - 1) <= bound)%Z).
Proof. exact (@PolyZFactorBasic.exp_loop_spec p bound). Qed.
Example ex_exp_loop : exp_loop (exp_fuel 1000) 1 7 1000 0 = Done (2401%Z, 4%Z).
Proof. by vm_compute. Qed.
(* the coefficient bound of a non-constant polynomial: no usize overflow, value 2^(n-1) * 2 * |lc| * (|lc| + sum |a_i|) *)
Theorem coefficient_bound_no_overflow md (a : seq Z) : (2 <= length a)%coq_nat -> (Z.of_nat (length a) <= 4294967296)%Z ->
  coef_bound md a =
  Done (abs_sum a (Z.abs (lead opsZ a)) * 2 ^ (Z.of_nat (length a) - 2) * 2 * Z.abs (lead opsZ a))%Z.
Proof. exact (@PolyZFactorBasic.coef_bound_done md a). Qed.
Example ex_coef_bound : coef_bound Checked [:: 1; 0; 0; 0; 4]%Z = Done 576%Z.
Proof. by vm_compute. Qed.
(* the recombination loop: every iteration removes d >= 1 lifted factors or increments d <= len / 2 *)
Theorem recombination_terminates md pe pe2 a lifted :
  recombine (recombine_fuel lifted) md pe pe2 1 a lifted [::] <> OutOfFuel.
Proof. exact (@recombine_fuel_suffices md pe pe2 a lifted). Qed.

(** ** non-vacuity: complete runs of the entry point *)
(* (x+1)^7: multiplicity 7 (no random draw is needed: the squarefree part is linear) *)
Example ex_pow7 :
  factorize_full Checked [:: 1; 7; 21; 35; 35; 21; 7; 1]%Z (rng_of [::])
  = Done (1%Z, [:: ([:: 1; 1], 7)]%Z, [:: 1%Z], rng_of [::]).
Proof. by vm_compute. Qed.
(* 3 (x+1)^12 x^2 *)
Example ex_pow12 :
  factorize Checked (pmul opsZ [:: 0; 0; 3]%Z (pmul opsZ [:: 1; 4; 6; 4; 1]%Z (pmul opsZ [:: 1; 4; 6; 4; 1]%Z [:: 1; 4; 6; 4; 1]%Z))) (rng_of [::])
  = Done (3%Z, [:: ([:: 0; 1], 2); ([:: 1; 1], 12)]%Z, rng_of [::]).
Proof. by vm_compute. Qed.
(* 4x^4 + 1 = (2x^2+2x+1)(2x^2-2x+1), with the 40 random bytes the implementation drew (seed 7) *)
Example ex_two_quadratics :
  factorize_full Checked [:: 1; 0; 0; 0; 4]%Z
    (rng_of [:: 215; 13; 50; 89; 228; 225; 203; 99; 28; 102; 60; 244; 215; 60; 76; 4; 2; 42; 177; 186; 128; 64;
                152; 230; 203; 41; 62; 103; 112; 235; 58; 149; 218; 33; 30; 106; 102; 59; 211; 115]%Z)
  = Done (1%Z, [:: ([:: 1; 2; 2], 1); ([:: 1; -2; 2], 1)]%Z, [:: 1%Z], rng_of [::]).
Proof. by vm_compute. Qed.
(* -6 (x^2+x+1)(2x^2+1): content -6, final cofactor 1 (hypothesis of factorize_product_partial) *)
Example ex_content :
  factorize_full Checked [:: -6; -6; -18; -12; -12]%Z
    (rng_of [:: 157; 48; 128; 35; 125; 100; 245; 80; 161; 19; 107; 122; 210; 92; 42; 67]%Z)
  = Done ((-6)%Z, [:: ([:: 1; 1; 1], 1); ([:: 1; 0; 2], 1)]%Z, [:: 1%Z], rng_of [::])
  /\ canonZ [:: -6; -6; -18; -12; -12]%Z.
Proof. by vm_compute. Qed.
(* the multiplicity loop alone on (x+1)^7 *)
Example ex_mult_loop :
  mult_loop 9 [:: 1; 7; 21; 35; 35; 21; 7; 1]%Z [:: 1; 1]%Z 0 = Done ([:: 1%Z], 7%Z)
  /\ div_exact [:: 1%Z] [:: 1; 1]%Z = None.
Proof. by vm_compute. Qed.
(* irreducible over Z, split modulo every prime: recombination must reassemble the modular factors *)
Example ex_swinnerton_dyer :
  exists bytes, factorize Checked [:: 1; 0; -10; 0; 1]%Z (rng_of bytes) = Done (1%Z, [:: ([:: 1; 0; -10; 0; 1], 1)]%Z, rng_of [::]).
Proof.
by exists [:: 13; 200; 7; 99; 45; 1; 250; 33; 17; 88; 91; 4; 5; 6; 7; 8]%Z; vm_compute.
Qed.
