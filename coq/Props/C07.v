(** * C07: factorisation over Z (src/poly_z/mod.rs).

    Theorems about the model [PolyZFactor.factorize] -- the function the correspondence check runs,
    through [factorize_full], which additionally returns the ghost *final cofactor* (the polynomial
    left in the variable [a] after all exact divisions of the multiplicity loops). The draw stream [r]
    is universally quantified: every statement holds for every sequence of random draws. [OutOfFuel]
    and panics are excluded by the hypothesis [... = Done ...].

    Specification language (MathComp, as in C09): a coefficient list [s] denotes [Poly s : {poly Z}];
    [canonZ s] = no trailing zero (every input the harness builds with [Polynomial::from_raw]).
    Definitions used below (Refine/PolyZFactorMain.v, PolyZFactorTop.v):
      [fpow (f, e) = Poly f ^+ Z.to_nat e],  [fprod l = \prod_(fe <- l) fpow fe];
      [maximal C l]: for every entry [(f, e)] of [l] with [f] non-zero, [f] does not divide
         [C * fprod (entries after it)] -- the cofactor at the time [f] was extracted;
      [prim_pos g]: [g] is normalised, has a positive leading coefficient and is primitive;
      [signed_content a c]: [c] divides every coefficient, every common divisor divides [c],
         and [c > 0 <-> lc a > 0].

    Status after the third wave (sections "Third wave" at the end of this file): positivity and primitivity
    of all returned polynomials, [e_i >= 1] and exactness of the multiplicities, pairwise distinctness, the
    correctness of the square-free part, the unreachability of both [expect]s are proved for all inputs [P];
    irreducibility of the returned polynomials and the product clause [a = c * prod f_i^e_i] are proved for
    every completed run whose prime search returned a prime below 2^31 [C] (Landau-Mignotte bound, uniqueness
    of Hensel lifts, completeness of the subset search). Fifth wave ([factorize_correct_sized]): the
    run-computed condition is replaced by a bound on the input size (degree <= 25, coefficients below 2^(2^24)).
    NOT proved: the same for larger inputs; termination of the prime search and (for all draw streams) of the
    modular factorisation. *)
From RNT.Model Require Import Base Poly PolyZFactor.
From mathcomp Require Import all_ssreflect ssralg poly.
From mathcomp Require Import ssrZ.
From RNT.Refine Require Import PolyRefine PolyZ PolyZFactorBasic PolyZFactorMult PolyZFactorMain PolyZFactorTop PolyZFactorEnum PolyZFactorPos.
From RNT.Model Require Resultant.
Set Implicit Arguments.
Unset Strict Implicit.
Import GRing.Theory.
Local Open Scope ring_scope.

(** ** [P] the zero polynomial gives (0, []), a non-zero constant c gives (c, []) *)
Theorem factorize_zero md r : factorize md [::] r = Done (0%Z, [::], r).
Proof. exact (PolyZFactorBasic.factorize_zero md r). Qed.
Theorem factorize_const md (c : Z) r : c <> 0%Z -> factorize md [:: c] r = Done (c, [::], r).
Proof. exact (@PolyZFactorBasic.factorize_const md c r). Qed.
Example ex_const : factorize Checked [:: -6]%Z (rng_of [:: 1; 2; 3]%Z) = Done ((-6)%Z, [::], rng_of [:: 1; 2; 3]%Z).
Proof. by vm_compute. Qed.

(** [factorize] is [factorize_full] without the ghost cofactor *)
Theorem factorize_is_full_run md a r c l r' :
  factorize md a r = Done (c, l, r') -> exists cof, factorize_full md a r = Done (c, l, cof, r').
Proof. exact (@factorize_of_full md a r c l r'). Qed.

(** ** [P] factors_divide: what the exact divisions guarantee.
    With [pp] the primitive part of the input: [pp = cof * prod f_i^e_i] for the ghost cofactor, every
    [e_i >= 0], every [f_i] was divided out as often as possible ([f_i] does not divide the cofactor left
    at that time), and all returned polynomials but the last are [cont_pp] outputs: primitive with a
    positive leading coefficient. *)
Theorem factors_divide md (a : seq Z) r c l cof r' : canonZ a ->
  factorize_full md a r = Done (c, l, cof, r') ->
  [/\ c = (cont_pp a).1, canonZ cof,
      Poly (cont_pp a).2 = Poly cof * fprod l,
      (forall fe, fe \in l -> (0 <= fe.2)%Z) /\ maximal (Poly cof) l
    & l = [::] \/
      exists pps lastf,
        [/\ map fst l = pps ++ [:: lastf], canonZ lastf & forall g, g \in pps -> prim_pos g]].
Proof. exact (@factorize_full_spec md a r c l cof r'). Qed.

(** every returned [f^e] divides the primitive part of the input *)
Theorem factor_power_divides_pp md (a : seq Z) r c l cof r' f e : canonZ a ->
  factorize_full md a r = Done (c, l, cof, r') -> (f, e) \in l ->
  (0 <= e)%Z /\ exists Q : {poly Z}, Poly (cont_pp a).2 = Q * Poly f ^+ Z.to_nat e.
Proof. exact (@factor_power_divides md a r c l cof r' f e). Qed.

(** the first component is the signed content *)
Theorem content_is_signed_content md (a : seq Z) r c l cof r' : canonZ a ->
  factorize_full md a r = Done (c, l, cof, r') -> signed_content a c.
Proof. exact (@factorize_content md a r c l cof r'). Qed.

(** ** [C] factorize_product_partial: conditional on the model-computed final cofactor being 1.
    Full statement (not proved; it needs the completeness of the recombination, i.e. the Mignotte bound
    and the uniqueness of Hensel lifts, and the correctness of the squarefree part):
      forall md a r c l cof r', canonZ a -> factorize_full md a r = Done (c, l, cof, r') -> cof = [:: 1].
    The correspondence check reports any run of the model whose final cofactor is not 1. *)
Theorem factorize_product_partial md (a : seq Z) r c l r' : canonZ a ->
  factorize_full md a r = Done (c, l, [:: 1%Z], r') ->
  Poly a = c *: fprod l /\ a = c *: fprod l :> seq Z.
Proof. exact (@factorize_product md a r c l r'). Qed.

(** ** [C] factors_primitive_positive_partial: *every* returned polynomial (the last one included) is
    normalised, primitive and has a positive leading coefficient, conditional on a value the run computes:
    the gcd of the primitive part and its derivative has a positive leading coefficient.
    Full statement (not proved): the same without the hypothesis [0 < last 0 g]; it holds whenever the
    sub-resultant divisions of [resultant_gcd] are exact (C10), because the result is then normalised by its
    signed content. *)
Theorem factors_primitive_positive_partial md (a : seq Z) r c l cof r' g : canonZ a ->
  (Resultant.resultant_gcd (cont_pp a).2 (pdiff opsZ (cont_pp a).2)).2 = Done g ->
  (0 < last 0 g)%Z ->
  factorize_full md a r = Done (c, l, cof, r') -> forall fe, fe \in l -> prim_pos fe.1.
Proof. exact (@factors_prim_pos md a r c l cof r' g). Qed.
Example ex_gcd_flag :
  let a := [:: -6; -18; -18; -6]%Z in
  (Resultant.resultant_gcd (cont_pp a).2 (pdiff opsZ (cont_pp a).2)).2 = Done [:: 1; 2; 1]%Z
  /\ factorize Checked a (rng_of [::]) = Done ((-6)%Z, [:: ([:: 1; 1], 3)]%Z, rng_of [::]).
Proof. by vm_compute. Qed.

(** ** [P] the factors of the squarefree part multiply back to it: [get_factors_of_squarefree] only
    splits off primitive parts of exact divisors *)
Theorem squarefree_factors_product md (a : seq Z) r fs r' : canonZ a ->
  get_factors_of_squarefree md a r = Done (fs, r') ->
  exists pps lastf,
    [/\ fs = pps ++ [:: lastf], canonZ lastf,
        Poly a = Poly lastf * \prod_(g <- pps) Poly g
      & forall g, g \in pps -> prim_pos g].
Proof. exact (@get_factors_spec md a r fs r'). Qed.

(** ** [P] multiplicity_any: the multiplicity loop never panics (the former [assert!(e <= 5)] is gone),
    its fuel suffices for non-constant divisors, and it returns the true multiplicity of any size *)
Theorem multiplicity_no_panic fuel (a f : seq Z) e t : mult_loop fuel a f e <> Panic t.
Proof. exact (@mult_loop_no_panic fuel a f e t). Qed.
Theorem multiplicity_loops_no_panic fs (a : seq Z) res t : extract_all fs a res <> Panic t.
Proof. exact (@extract_all_no_panic fs a res t). Qed.
Theorem multiplicity_loops_terminate fs (a : seq Z) res : canonZ a -> a != [::] ->
  (forall g, g \in fs -> canonZ g /\ (1 < size g)%N) ->
  exists cof l, extract_all fs a res = Done (cof, l).
Proof. exact (@extract_all_done fs a res). Qed.
Theorem multiplicity_any (a f c : seq Z) (n : nat) : canonZ a -> canonZ f -> canonZ c -> a != [::] ->
  (1 < size f)%N -> Poly a = Poly c * Poly f ^+ n -> (forall Q, Poly c <> Q * Poly f) ->
  mult_loop (length a + 1) a f 0 = Done (c, Z.of_nat n).
Proof. exact (@mult_loop_exact a f c n). Qed.

(** ** [P] the subset enumeration of the model is the mask loop of the code.
    [for bits in 0usize..1 << len { if bits.count_ones() != d { continue } ... }] visits [masks len d]: the
    bit sets of k = 0, 1, ..., 2^len - 1 having d elements, in this order ([bit k i = odd (k / 2^i)]).
    The model's [find_subset] (which does not count to 2^len) is the first success of the loop body over
    exactly this list. *)
Theorem subset_enumeration_is_mask_order R m d (test : list nat -> outcome (option R)) :
  find_subset m d [::] test = first_success test (masks m d).
Proof. exact (@find_subset_masks R m d test). Qed.
Example ex_masks_4_2 :
  masks 4 2 = [:: [:: 0; 1]; [:: 0; 2]; [:: 1; 2]; [:: 0; 3]; [:: 1; 3]; [:: 2; 3]]%N.
Proof. by vm_compute. Qed.

(** ** [P] the deterministic loops that the model runs on fuel: the supplied fuel suffices.
    (The prime search and the modular factorisation stay on fuel: see NOT_PROVED.) *)
(* while pe <= bound { pe *= p; e += 1 }: returns the least power of p above the bound *)
Theorem exponent_loop_spec (p bound : Z) : (2 <= p)%Z ->
  exists e, exp_loop (exp_fuel bound) 1 p bound 0 = Done ((p ^ e)%Z, e)
            /\ (0 <= e)%Z /\ (bound < p ^ e)%Z /\ (e = 0%Z \/ (p ^ (e - 1) <= bound)%Z).
Proof. exact (@PolyZFactorBasic.exp_loop_spec p bound). Qed.
Example ex_exp_loop : exp_loop (exp_fuel 1000) 1 7 1000 0 = Done (2401%Z, 4%Z).
Proof. by vm_compute. Qed.
(* the coefficient bound of a non-constant polynomial: no usize overflow, value 2^(n-1) * 2 * |lc| * (|lc| + sum |a_i|) *)
Theorem coefficient_bound_no_overflow md (a : seq Z) : (2 <= length a)%coq_nat -> (Z.of_nat (length a) <= 4294967296)%Z ->
  coef_bound md a =
  Done (abs_sum a (Z.abs (lead opsZ a)) * 2 ^ (Z.of_nat (length a) - 2) * 2 * Z.abs (lead opsZ a))%Z.
Proof. exact (@PolyZFactorBasic.coef_bound_done md a). Qed.
Example ex_coef_bound : coef_bound Checked [:: 1; 0; 0; 0; 4]%Z = Done 576%Z.
Proof. by vm_compute. Qed.
(* the recombination loop: every iteration removes d >= 1 lifted factors or increments d <= len / 2 *)
Theorem recombination_terminates md pe pe2 a lifted :
  recombine (recombine_fuel lifted) md pe pe2 1 a lifted [::] <> OutOfFuel.
Proof. exact (@recombine_fuel_suffices md pe pe2 a lifted). Qed.

(** ** non-vacuity: complete runs of the entry point *)
(* (x+1)^7: multiplicity 7 (no random draw is needed: the squarefree part is linear) *)
Example ex_pow7 :
  factorize_full Checked [:: 1; 7; 21; 35; 35; 21; 7; 1]%Z (rng_of [::])
  = Done (1%Z, [:: ([:: 1; 1], 7)]%Z, [:: 1%Z], rng_of [::]).
Proof. by vm_compute. Qed.
(* 3 (x+1)^12 x^2 *)
Example ex_pow12 :
  factorize Checked (pmul opsZ [:: 0; 0; 3]%Z (pmul opsZ [:: 1; 4; 6; 4; 1]%Z (pmul opsZ [:: 1; 4; 6; 4; 1]%Z [:: 1; 4; 6; 4; 1]%Z))) (rng_of [::])
  = Done (3%Z, [:: ([:: 0; 1], 2); ([:: 1; 1], 12)]%Z, rng_of [::]).
Proof. by vm_compute. Qed.
(* 4x^4 + 1 = (2x^2+2x+1)(2x^2-2x+1), with the 40 random bytes the implementation drew (seed 7) *)
Example ex_two_quadratics :
  factorize_full Checked [:: 1; 0; 0; 0; 4]%Z
    (rng_of [:: 215; 13; 50; 89; 228; 225; 203; 99; 28; 102; 60; 244; 215; 60; 76; 4; 2; 42; 177; 186; 128; 64;
                152; 230; 203; 41; 62; 103; 112; 235; 58; 149; 218; 33; 30; 106; 102; 59; 211; 115]%Z)
  = Done (1%Z, [:: ([:: 1; 2; 2], 1); ([:: 1; -2; 2], 1)]%Z, [:: 1%Z], rng_of [::]).
Proof. by vm_compute. Qed.
(* -6 (x^2+x+1)(2x^2+1): content -6, final cofactor 1 (hypothesis of factorize_product_partial) *)
Example ex_content :
  factorize_full Checked [:: -6; -6; -18; -12; -12]%Z
    (rng_of [:: 157; 48; 128; 35; 125; 100; 245; 80; 161; 19; 107; 122; 210; 92; 42; 67]%Z)
  = Done ((-6)%Z, [:: ([:: 1; 1; 1], 1); ([:: 1; 0; 2], 1)]%Z, [:: 1%Z], rng_of [::])
  /\ canonZ [:: -6; -6; -18; -12; -12]%Z.
Proof. by vm_compute. Qed.
(* the multiplicity loop alone on (x+1)^7 *)
Example ex_mult_loop :
  mult_loop 9 [:: 1; 7; 21; 35; 35; 21; 7; 1]%Z [:: 1; 1]%Z 0 = Done ([:: 1%Z], 7%Z)
  /\ div_exact [:: 1%Z] [:: 1; 1]%Z = None.
Proof. by vm_compute. Qed.
(* irreducible over Z, split modulo every prime: recombination must reassemble the modular factors *)
Example ex_swinnerton_dyer :
  exists bytes, factorize Checked [:: 1; 0; -10; 0; 1]%Z (rng_of bytes) = Done (1%Z, [:: ([:: 1; 0; -10; 0; 1], 1)]%Z, rng_of [::]).
Proof.
by exists [:: 13; 200; 7; 99; 45; 1; 250; 33; 17; 88; 91; 4; 5; 6; 7; 8]%Z; vm_compute.
Qed.

(** * Third wave: what a completed run guarantees without any condition on the run.

    Built on C10 ([resultant_gcd] is total, returns a divisor in Z[x] associated over Q to the gcd, with
    positive leading coefficient), C09 ([div_exact] is exact division in Z[x]) and Gauss's lemma.
    Divisibility [u %| v], [coprimep], [u %= v], [gcdp], [separable_poly p] ([coprimep p p^`()]) and
    [irreducible_poly] are MathComp's notions for polynomials over the integral domain Z: divisibility
    up to non-zero constants, i.e. in Q[x]. This section supersedes the header of this file: positivity and
    primitivity of *all* returned polynomials, [e_i >= 1], non-constancy, pairwise coprimality and
    distinctness, exactness of the multiplicities and the correctness of the square-free part are now proved
    for all inputs; the product clause is proved for square-free inputs and, in general, under the hypothesis
    that the returned polynomials are irreducible. Irreducibility itself (completeness of the recombination:
    Landau-Mignotte bound and uniqueness of Hensel lifts) is treated in the two continuation sections below.
    NOT proved: termination of the prime search and of the modular factorisation. *)
From mathcomp Require Import polydiv separable.
From RNT.Refine Require Import PolyZFactorW3Sqf PolyZFactorW3Run PolyZFactorW3Top PolyZFactorW3Exact.

(** ** [P] factors_primitive_positive: every returned polynomial, the last one included, is stored
    normalised, is primitive and has a positive leading coefficient (no condition on the run:
    [resultant_gcd] returns a polynomial with positive leading coefficient, C10 [gcd_spec]). *)
Theorem factors_primitive_positive md (a : seq Z) r c l cof r' : canonZ a ->
  factorize_full md a r = Done (c, l, cof, r') -> forall fe, fe \in l -> prim_pos fe.1.
Proof. exact (@PolyZFactorW3Exact.factors_primitive_positive md a r c l cof r'). Qed.

(** ** [P] squarefree_part_spec: for a canonical non-constant input with primitive part [pp],
    [resultant_gcd pp pp'] returns [g], the division [div_exact pp g] succeeds -- so the
    [expect("This division cannot fail")] of mod.rs:24 never fires: the run *is* the rest of the pipeline
    applied to the quotient [q] --, [pp = q * g] with [g] associated over Q to [gcd(pp, pp')], [q] is
    square-free over Q, and every divisor of [pp] coprime to [q] is a non-zero constant (every irreducible
    factor of [pp] divides [q]). *)
Theorem squarefree_part_spec md (a : seq Z) r : canonZ a -> (1 < size a)%N ->
  let pp := (cont_pp a).2 in
  exists g q : seq Z,
    [/\ (Resultant.resultant_gcd pp (pdiff opsZ pp)).2 = Done g /\ div_exact pp g = Some q,
        Poly pp = Poly q * Poly g /\ Poly g %= gcdp (Poly pp) (Poly pp)^`(),
        separable_poly (Poly q),
        forall u : {poly Z}, u %| Poly pp -> coprimep u (Poly q) -> size u = 1%N
      & factorize_full md a r =
        (do '(factors, r1) <- get_factors_of_squarefree md q r;
         do '(cof, result) <- extract_all factors pp [::];
         Done ((cont_pp a).1, result, cof, r1))].
Proof. exact (@PolyZFactorW3Exact.squarefree_part_spec md a r). Qed.
(* (x+1)^7: the gcd with the derivative is (x+1)^6, the square-free part is x+1 *)
Example ex_sqfree_part :
  let a := [:: 1; 7; 21; 35; 35; 21; 7; 1]%Z in
  [/\ canonZ a, (1 < size a)%N,
      (Resultant.resultant_gcd (cont_pp a).2 (pdiff opsZ (cont_pp a).2)).2 = Done [:: 1; 6; 15; 20; 15; 6; 1]%Z
    & div_exact (cont_pp a).2 [:: 1; 6; 15; 20; 15; 6; 1]%Z = Some [:: 1; 1]%Z].
Proof. by vm_compute. Qed.
(* the abstract statement (Refine/PolyZFactorW3Sqf.v), over any integral domain of characteristic 0 *)
Theorem squarefree_part_char0 (R : idomainType) :
  (forall n, (n%:R == 0 :> R) = (n == 0)%N) ->
  forall p q g u : {poly R}, p != 0 -> p = q * g -> g %= gcdp p p^`() ->
  separable_poly q /\ (u %| p -> coprimep u q -> size u = 1%N).
Proof. exact (@PolyZFactorW3Sqf.squarefree_part_char0 R). Qed.

(** ** [P] multiplicities_positive: every returned polynomial is non-constant and its exponent is at
    least 1 (it divides the square-free part, hence the primitive part, and is coprime to the polynomials
    extracted before it);
    multiplicities_exact: [e_i] is the exact multiplicity of [f_i] in the primitive part and in the input:
    [f_i^k] divides it (over Q; equivalently in Z[x], [f_i] being primitive) iff [k <= e_i]. *)
Theorem multiplicities_positive md (a : seq Z) r c l cof r' : canonZ a ->
  factorize_full md a r = Done (c, l, cof, r') ->
  forall fe, fe \in l -> (1 <= fe.2)%Z /\ (1 < size fe.1)%N.
Proof. exact (@PolyZFactorW3Exact.multiplicities_positive md a r c l cof r'). Qed.
Theorem multiplicities_exact md (a : seq Z) r c l cof r' f e : canonZ a ->
  factorize_full md a r = Done (c, l, cof, r') -> (f, e) \in l ->
  forall k : nat, (Poly f ^+ k %| Poly (cont_pp a).2) = (k <= Z.to_nat e)%N.
Proof. exact (@factorize_full_exact_mult md a r c l cof r' f e). Qed.
Theorem multiplicities_exact_input md (a : seq Z) r c l cof r' f e : canonZ a ->
  factorize_full md a r = Done (c, l, cof, r') -> (f, e) \in l ->
  forall k : nat, (Poly f ^+ k %| Poly a) = (k <= Z.to_nat e)%N.
Proof. exact (@factorize_full_exact_mult_input md a r c l cof r' f e). Qed.

(** ** [P] factors_pairwise_distinct: the returned polynomials are pairwise distinct, and any two of them
    are coprime over Q (they are distinct non-constant divisors of the square-free part). *)
Theorem factors_pairwise_distinct md (a : seq Z) r c l cof r' : canonZ a ->
  factorize_full md a r = Done (c, l, cof, r') ->
  uniq (map fst l) /\
  forall fe fe', fe \in l -> fe' \in l -> fe.1 <> fe'.1 -> coprimep (Poly fe.1) (Poly fe'.1).
Proof. exact (@PolyZFactorW3Exact.factors_pairwise_distinct md a r c l cof r'). Qed.

(** ** [P] product_up_to_cofactor: for a non-constant canonical input, [a = c * cof * prod f_i^e_i] where
    the ghost cofactor [cof] is primitive with positive leading coefficient, divides the gcd [g] of the
    primitive part and its derivative computed by the run, with [g = cof * prod f_i^(e_i - 1)]
    ([fprod_pred l]), and every divisor of [cof] coprime to [prod f_i] is a non-zero constant (every
    irreducible factor of [cof] divides some [f_i], while no [f_i] divides [cof]: [factors_divide]). *)
Theorem product_up_to_cofactor md (a : seq Z) r c l cof r' : canonZ a -> (1 < size a)%N ->
  factorize_full md a r = Done (c, l, cof, r') ->
  let pp := (cont_pp a).2 in
  [/\ prim_pos cof, Poly a = c *: (Poly cof * fprod l),
      exists g, [/\ (Resultant.resultant_gcd pp (pdiff opsZ pp)).2 = Done g,
                    Poly g %= gcdp (Poly pp) (Poly pp)^`() & Poly g = Poly cof * fprod_pred l]
    & forall u : {poly Z}, u %| Poly cof -> coprimep u (lprod (map fst l)) -> size u = 1%N].
Proof. exact (@factorize_full_cofactor md a r c l cof r'). Qed.

(** ** [P] factorize_product_squarefree: the product clause, unconditionally, for every input without
    repeated factor ([coprimep a a'], a hypothesis on the input, not on the run): the cofactor is 1, every
    exponent is 1 and [a = c * prod f_i]. *)
Theorem factorize_product_squarefree md (a : seq Z) r c l cof r' : canonZ a ->
  separable_poly (Poly a) ->
  factorize_full md a r = Done (c, l, cof, r') ->
  [/\ cof = [:: 1%Z], forall fe, fe \in l -> fe.2 = 1%Z & Poly a = c *: fprod l].
Proof. exact (@factorize_full_squarefree md a r c l cof r'). Qed.
(* x^4 - 10x^2 + 1 and -6(x^2+x+1)(2x^2+1) satisfy the hypothesis (the gcd computed by the model is 1) *)
Example ex_separable_hyp :
  separable_poly (Poly [:: 1; 0; -10; 0; 1]%Z) /\ separable_poly (Poly [:: -6; -6; -18; -12; -12]%Z).
Proof. by split; apply: separable_of_gcd1 => //; vm_compute. Qed.

(** ** [C] factorize_product_of_irreducible: the product clause for all inputs, conditional on the
    irreducibility over Q of the returned polynomials (the clause that is NOT proved: it needs the
    completeness of the recombination). Full statement (not proved):
      forall md a r c l cof r', canonZ a -> factorize_full md a r = Done (c, l, cof, r') ->
        cof = [:: 1] /\ Poly a = c *: fprod l.
    Without irreducibility the cofactor need not be 1 in principle: were the recombination to return
    u*v for pp = u^2 v, the run would end with ([(u v, 1)], cof = u). *)
Theorem factorize_product_of_irreducible md (a : seq Z) r c l cof r' : canonZ a ->
  factorize_full md a r = Done (c, l, cof, r') ->
  (forall fe, fe \in l -> irreducible_poly (Poly fe.1)) ->
  cof = [:: 1%Z] /\ Poly a = c *: fprod l.
Proof. exact (@factorize_full_irreducible_product md a r c l cof r'). Qed.
(* (x+1)^7: the only returned polynomial x+1 is irreducible *)
Example ex_irreducible_hyp :
  factorize_full Checked [:: 1; 7; 21; 35; 35; 21; 7; 1]%Z (rng_of [::])
  = Done (1%Z, [:: ([:: 1; 1], 7)]%Z, [:: 1%Z], rng_of [::])
  /\ forall fe, fe \in [:: ([:: 1; 1], 7)]%Z -> irreducible_poly (Poly fe.1).
Proof. by split; [vm_compute | move=> fe; rewrite inE => /eqP ->; apply: linear_irreducible]. Qed.

(** * Third wave, continued: the recombination.

    Vocabulary (Refine/PolyZmod.v, FmpField.v, PolyZFactorW3Subset.v, PolyZFactorW3Irred.v, PolyZFactorW3Final.v):
    [eqpm m a b]: the integer polynomials [a], [b] are congruent modulo the integer [m];
    [redp n a]: the reduction of [a] in ['F_n[x]] ([n] a prime natural number);
    [lsprod ls]: the product of a list of polynomials; [lifted_ok n ls]: the polynomials of [ls] are monic,
    irreducible modulo [n] and pairwise coprime modulo [n];
    [prec_ok pe q]: for every factorisation [q = u v] in Z[x] and every [i], [2 |lc(v) u_i| < pe];
    [run_precision_ok md q]: for the bound, the prime [p] (and its machine-word copy [pu]) and the modulus
    [pe = p^e] that the run computes on [q]: [p = pu] (the prime was not wrapped by [as i32]) and [prec_ok pe q].
    [prec_ok] for the modulus chosen by the code is what the Landau-Mignotte bound guarantees; it appears as a
    hypothesis of the [C] theorems of this section and is discharged in the next section
    ([coefficient_bound_sufficient]). *)
From mathcomp Require Import zmodp.
From RNT.Refine Require Import PolyZmod FmpField.
From RNT.Refine Require Import PolyZFactorW3Unwrap PolyZFactorW3Hensel PolyZFactorW3Subset PolyZFactorW3Irred PolyZFactorW3Final.

(** ** [P] the [expect("This division will always succeed")] of the recombination (mod.rs:109) never fires:
    when [prod] divides [lc(a) a], the primitive part of [prod] divides [a] (Gauss's lemma). Together with
    [squarefree_part_spec]: neither [expect] of [poly_z::factorize] can fire. *)
Theorem recombination_expect_unreachable fuel md pe pe2 d (a : seq Z) lifted res : canonZ a -> a != [::] ->
  recombine fuel md pe pe2 d a lifted res <> Panic PUnwrap.
Proof. exact (@recombine_no_unwrap fuel md pe pe2 d a lifted res). Qed.
Theorem subset_test_expect_unreachable md (a : seq Z) lca pe pe2 lifted idx : canonZ a -> lca != 0 ->
  try_subset md a lca pe pe2 lifted idx <> Panic PUnwrap.
Proof. exact (@try_subset_no_unwrap md a lca pe pe2 lifted idx). Qed.

(** ** [P] uniqueness of Hensel lifts in Z[x]: if [A B = A' B'] modulo [p^e], [A = A'] and [B = B'] modulo [p],
    with equal degrees and equal leading coefficients not divisible by [p], and [A], [B] coprime modulo [p],
    then [A = A'] and [B = B'] modulo [p^e]. *)
Theorem hensel_lift_unique (n : nat) : prime n -> forall e (A B A' B' : {poly Z}), (0 < e)%N ->
  eqpm (Z.of_nat n ^+ e) (A * B) (A' * B') -> eqpm (Z.of_nat n) A A' -> eqpm (Z.of_nat n) B B' ->
  lead_coef A = lead_coef A' -> size A = size A' ->
  lead_coef B = lead_coef B' -> size B = size B' ->
  ~ (Z.of_nat n | lead_coef A)%ZZ -> ~ (Z.of_nat n | lead_coef B)%ZZ -> coprimep (redp n A) (redp n B) ->
  eqpm (Z.of_nat n ^+ e) A A' /\ eqpm (Z.of_nat n ^+ e) B B'.
Proof. exact (@hensel_unique n). Qed.

(** ** [P] every factorisation in Z[x] splits the lifted factors: if [a = lc(a) prod ls] modulo [p^e] with
    [ls] monic, irreducible and pairwise coprime modulo [p], [p] not dividing [lc(a)], and [a = u v] in Z[x],
    then [u = lc(u) prod (mask m ls)] and [v = lc(v) prod (mask (~m) ls)] modulo [p^e] for a bit mask [m]. *)
Theorem true_factors_split_lifted (n : nat) : prime n -> forall e (a u v : {poly Z}) ls, (0 < e)%N ->
  lifted_ok n ls -> ~ (Z.of_nat n | lead_coef a)%ZZ ->
  eqpm (Z.of_nat n ^+ e) a (lead_coef a *: lsprod ls) -> a = u * v ->
  exists m : bitseq,
    [/\ size m = size ls, eqpm (Z.of_nat n ^+ e) u (lead_coef u *: lsprod (mask m ls))
      & eqpm (Z.of_nat n ^+ e) v (lead_coef v *: lsprod (mask (map negb m) ls))].
Proof. exact (@subset_structure n). Qed.

(** ** [C] squarefree_factors_irreducible_partial: [get_factors_of_squarefree] returns polynomials irreducible
    over Q, conditional on values the run computes: the prime found is its own machine-word copy, and the
    modulus [pe] satisfies [prec_ok]. (C08: the modular factors are monic, irreducible, pairwise distinct and
    multiply to the input; C11: the lifted factors are congruent to them and multiply to the input modulo p^e;
    [true_factors_split_lifted]; the subsets are tried by increasing size, Props [subset_enumeration_is_mask_order].)
    The hypothesis [prec_ok pe q] is removed in the next section ([squarefree_factors_irreducible_flag]). *)
Theorem squarefree_factors_irreducible_partial md (q : seq Z) r fs r' bound p pe e :
  canonZ q -> (1 < size q)%N -> md = Checked \/ (Z.of_nat (length q) <= two64)%ZZ ->
  coef_bound md q = Done bound ->
  find_prime (prime_fuel q) q 2 = Done (p, p) ->
  exp_loop (exp_fuel bound) 1 p bound 0 = Done (pe, e) ->
  prec_ok pe q ->
  get_factors_of_squarefree md q r = Done (fs, r') ->
  forall f, f \in fs -> irreducible_poly (Poly f).
Proof. exact (@get_factors_irreducible md q r fs r' bound p pe e). Qed.

(** ** [C] factors_irreducible_partial: every polynomial returned by [factorize_full] is irreducible over Q,
    conditional on [run_precision_ok] for the square-free part of the run.
    factorize_complete_partial: under the same condition the whole property holds: the cofactor is 1,
    [a = c * prod f_i^e_i], and (unconditionally, above) the [f_i] are primitive, positive, non-constant,
    pairwise distinct, with exact multiplicities [e_i >= 1] and [c] the signed content.
    The precision part of the hypothesis is removed in the next section ([factorize_correct_flag]); the full
    statement without the condition [p = pu] is not proved. *)
Theorem factors_irreducible_partial md (a : seq Z) r c l cof r' : canonZ a ->
  md = Checked \/ (Z.of_nat (length a) <= two64)%ZZ ->
  factorize_full md a r = Done (c, l, cof, r') ->
  (forall g q, (Resultant.resultant_gcd (cont_pp a).2 (pdiff opsZ (cont_pp a).2)).2 = Done g ->
               div_exact (cont_pp a).2 g = Some q -> run_precision_ok md q) ->
  forall fe, fe \in l -> irreducible_poly (Poly fe.1).
Proof. exact (@factorize_full_irreducible md a r c l cof r'). Qed.
Theorem factorize_complete_partial md (a : seq Z) r c l cof r' : canonZ a ->
  md = Checked \/ (Z.of_nat (length a) <= two64)%ZZ ->
  factorize_full md a r = Done (c, l, cof, r') ->
  (forall g q, (Resultant.resultant_gcd (cont_pp a).2 (pdiff opsZ (cont_pp a).2)).2 = Done g ->
               div_exact (cont_pp a).2 g = Some q -> run_precision_ok md q) ->
  [/\ cof = [:: 1%ZZ], Poly a = c *: fprod l
    & forall fe, fe \in l -> irreducible_poly (Poly fe.1)].
Proof. exact (@factorize_full_complete md a r c l cof r'). Qed.
(* the hypotheses hold for the run on (x+1)^7 (square-free part x + 1, bound 6, prime 2, modulus 8) *)
Example ex_precision_hyp :
  let a := [:: 1; 7; 21; 35; 35; 21; 7; 1]%ZZ in
  [/\ canonZ a, Checked = Checked \/ (Z.of_nat (length a) <= two64)%ZZ,
      factorize_full Checked a (rng_of [::]) = Done (1%ZZ, [:: ([:: 1; 1], 7)]%ZZ, [:: 1%ZZ], rng_of [::]),
      forall g q, (Resultant.resultant_gcd (cont_pp a).2 (pdiff opsZ (cont_pp a).2)).2 = Done g ->
                  div_exact (cont_pp a).2 g = Some q -> run_precision_ok Checked q
    & prec_ok 8 [:: 1; 1]%ZZ].
Proof. by split; [vm_compute | left | vm_compute | exact: precision_ok_pow7 | exact: prec_ok_x1]. Qed.

(** * Third wave, continued: the coefficient bound is sufficient (Landau-Mignotte), so the precision hypothesis
    of the [C] theorems above is discharged: the only remaining condition is that the prime found by the
    search was not wrapped by [as i32] ([prime_not_wrapped q]: [find_prime] returns a pair [(p, p)]; true
    whenever the first good prime is below 2^31), plus a coefficient vector of at most 2^32 entries. *)
From RNT.Refine Require Import PolyZFactorW3Mignotte PolyZFactorW3Bound.

(** ** [P] Landau-Mignotte: if [q = u v] in Z[x], [q <> 0], then [|lc(v) u_i| <= C(deg u, i) * sum_j |q_j|]
    for every [i] (proved over the algebraic numbers: Landau's inequality [M(q) <= ||q||_2] by Mignotte's
    reflection argument, and the bound of the coefficients of [prod (x - a_i)] by binomials times
    [prod max(1, |a_i|)]; Refine/PolyZFactorW3Landau.v, PolyZFactorW3Mignotte.v). *)
Theorem landau_mignotte_bound (q u v : {poly Z}) : q = u * v -> q != 0 -> forall i,
  Z.le (Z.abs (Z.mul (lead_coef v) u`_i)) (Z.mul (Z.of_nat 'C((size u).-1, i)) (\sum_(j < size q) Z.abs q`_j)).
Proof. exact (@mignotte_Z q u v). Qed.

(** ** [P] coefficient_bound_sufficient: any modulus above the bound computed by the code (see
    [coefficient_bound_no_overflow]) satisfies [prec_ok] *)
Theorem coefficient_bound_sufficient (q : seq Z) (pe : Z) : canonZ q -> (1 < size q)%N ->
  (abs_sum q (Z.abs (lead opsZ q)) * 2 ^ (Z.of_nat (length q) - 2) * 2 * Z.abs (lead opsZ q) < pe)%ZZ ->
  prec_ok pe q.
Proof. exact (@prec_ok_of_bound q pe). Qed.

(** ** [C] squarefree_factors_irreducible_flag: [get_factors_of_squarefree] returns irreducible polynomials
    whenever the prime search returned a prime equal to its machine-word copy.
    Full statement (not proved; it is false of the faithful model for inputs whose first good prime exceeds
    2^31, which no real input reaches): the same for [find_prime ... = Done (p, pu)] with any [pu]. *)
Theorem squarefree_factors_irreducible_flag md (q : seq Z) r fs r' p :
  canonZ q -> (1 < size q)%N -> (Z.of_nat (length q) <= 4294967296)%ZZ ->
  find_prime (prime_fuel q) q 2 = Done (p, p) ->
  get_factors_of_squarefree md q r = Done (fs, r') ->
  forall f, f \in fs -> irreducible_poly (Poly f).
Proof. exact (@get_factors_irreducible_bound md q r fs r' p). Qed.

(** ** [C] factorize_correct_flag: for every completed run on a canonical input of at most 2^32 coefficients
    for which the prime found for the square-free part was not wrapped: the final cofactor is 1,
    [a = c * prod f_i^e_i], and every [f_i] is irreducible over Q. Together with the unconditional
    [content_is_signed_content], [factors_primitive_positive], [multiplicities_positive],
    [multiplicities_exact_input], [factors_pairwise_distinct] this is the whole property C07 for such runs. *)
Theorem factorize_correct_flag md (a : seq Z) r c l cof r' : canonZ a ->
  (Z.of_nat (length a) <= 4294967296)%ZZ ->
  factorize_full md a r = Done (c, l, cof, r') ->
  (forall g q, (Resultant.resultant_gcd (cont_pp a).2 (pdiff opsZ (cont_pp a).2)).2 = Done g ->
               div_exact (cont_pp a).2 g = Some q -> prime_not_wrapped q) ->
  [/\ cof = [:: 1%ZZ], Poly a = c *: fprod l
    & forall fe, fe \in l -> irreducible_poly (Poly fe.1)].
Proof. exact (@factorize_full_irreducible_bound md a r c l cof r'). Qed.
(* the condition holds for the runs on (x+1)^7 (prime 2), -6(x^2+x+1)(2x^2+1) (prime 5), x^4-10x^2+1 (prime 5) *)
Example ex_prime_not_wrapped :
  [/\ forall g q, (Resultant.resultant_gcd (cont_pp [:: 1; 7; 21; 35; 35; 21; 7; 1]%ZZ).2
                     (pdiff opsZ (cont_pp [:: 1; 7; 21; 35; 35; 21; 7; 1]%ZZ).2)).2 = Done g ->
                  div_exact (cont_pp [:: 1; 7; 21; 35; 35; 21; 7; 1]%ZZ).2 g = Some q -> prime_not_wrapped q,
      forall g q, (Resultant.resultant_gcd (cont_pp [:: -6; -6; -18; -12; -12]%ZZ).2
                     (pdiff opsZ (cont_pp [:: -6; -6; -18; -12; -12]%ZZ).2)).2 = Done g ->
                  div_exact (cont_pp [:: -6; -6; -18; -12; -12]%ZZ).2 g = Some q -> prime_not_wrapped q
    & forall g q, (Resultant.resultant_gcd (cont_pp [:: 1; 0; -10; 0; 1]%ZZ).2
                     (pdiff opsZ (cont_pp [:: 1; 0; -10; 0; 1]%ZZ).2)).2 = Done g ->
                  div_exact (cont_pp [:: 1; 0; -10; 0; 1]%ZZ).2 g = Some q -> prime_not_wrapped q].
Proof. by split; [exact: prime_not_wrapped_pow7 | exact: prime_not_wrapped_content | exact: prime_not_wrapped_sd]. Qed.

(** * Fifth wave: the run-computed condition "the prime found was not wrapped" is replaced by a condition on the
    SIZE OF THE INPUT (Refine/W5Primorial.v, W5SmallPrime.v, W5FindPrime.v, W5DetBound.v, W5Sized.v).

    A prime p is rejected by the search only if it divides D = lc(q) * Res(q, q') (q the square-free part): the
    Bezout identity u q' + v q = Res(q', q) over Z reduces modulo p. D is non-zero, and |D| <= 2^(K + 49 (K + 11))
    when deg q <= 25 and |q_i| <= 2^K (Leibniz bound of the Sylvester determinant); a divisor q of a has
    |q_i| <= 2^25 ||a||_1 (Landau-Mignotte). The product of the primes up to 2n is at least 4^n / (2n)^(s+2) for
    2n < (s+1)^2 (from the Bertrand development), so a non-zero integer of fewer than 2^30 bits cannot be
    divisible by all primes below 2^31. *)
From RNT.Refine Require Import BertrandBin W5Primorial W5SmallPrime W5FindPrime W5Sized.
From mathcomp Require Import matrix mxpoly.

(** ** [P] primorial_lower_bound: 4^n <= (2n)^(s+2) * prod_{p <= 2n, p prime} p whenever 2n < (s+1)^2 *)
Theorem primorial_lower_bound (n s : nat) : (0 < n)%N -> (n.*2 < s.+1 ^ 2)%N ->
  (4 ^ n <= n.*2 ^ s.+2 * primorial n.*2)%N.
Proof. exact (@W5Primorial.primorial_lower n s). Qed.
Example ex_primorial : primorial 10 = 210%N /\ (4 ^ 5 <= 10 ^ 5 * 210)%N.
Proof. by rewrite /primorial unlock. Qed.

(** ** [P] small_prime_exists: a non-zero integer D with log2 |D| < 2^30 has a prime p < 2^31 not dividing it *)
Theorem small_prime_exists (D : Z) : D <> 0%ZZ -> (Z.log2 (Z.abs D) < 1073741824)%ZZ ->
  exists p, [/\ Znumtheory.prime p, (p < 2147483648)%ZZ & ~ (p | D)%ZZ].
Proof. exact (@W5SmallPrime.exists_prime_below_2_31 D). Qed.

(** ** [P] find_prime_small: for a canonical non-constant q, every prime p0 < 2^31 not dividing
    lc(q) * Res(q, q') bounds the search: a returned pair (p, pu) has p = pu (no wrap by [as i32]), p prime,
    p <= p0. (A prime is rejected only if it divides lc(q) or the reduction of q is not square-free.) *)
Theorem find_prime_small (q : seq Z) (p pu p0 : Z) : canonZ q -> (1 < size q)%N ->
  Znumtheory.prime p0 -> (p0 < 2147483648)%ZZ ->
  ~ (p0 | lead_coef (Poly q) * mxpoly.resultant (Poly q)^`() (Poly q))%ZZ ->
  find_prime (prime_fuel q) q 2 = Done (p, pu) ->
  [/\ p = pu, Znumtheory.prime p & (p <= p0)%ZZ].
Proof. exact (@W5FindPrime.find_prime_small q p pu p0). Qed.
(* x^4 - 10x^2 + 1: lc * Res(q, q') = 147456 = 2^14 * 3^2; the prime 5 does not divide it, the search returns 5 *)
Example ex_find_prime_small :
  let q := [:: 1; 0; -10; 0; 1]%ZZ in
  find_prime (prime_fuel q) q 2 = Done (5%ZZ, 5%ZZ) /\ (147456 mod 5)%ZZ = 1%ZZ.
Proof. by split; vm_compute. Qed.

(** ** [P] prime_not_wrapped_sized: for a canonical square-free non-constant q dividing (in Z[x]) a polynomial a
    of degree <= 25 whose coefficients have at most 2^24 bits, the prime found is below 2^31 and not wrapped *)
Theorem prime_not_wrapped_sized (a q : seq Z) (v : {poly Z}) : canonZ q -> (1 < size q)%N ->
  separable_poly (Poly q) -> Poly a = Poly q * v -> Poly a != 0 -> (size (Poly a) <= 26)%N ->
  (forall i, (Z.log2 (Z.abs (Poly a)`_i) < 16777216)%ZZ) ->
  forall p pu, find_prime (prime_fuel q) q 2 = Done (p, pu) ->
  [/\ p = pu, Znumtheory.prime p & (p < 2147483648)%ZZ].
Proof. exact (@W5Sized.prime_not_wrapped_of_size a q v). Qed.

(** ** [P] factorize_correct_sized: for EVERY canonical input of degree <= 25 (the recombination limit of the
    property) whose coefficients have at most 2^24 = 16777216 bits (log2 |a_i| < 2^24), every completed run, for
    every draw stream, returns the irreducible factorisation: the final cofactor is 1, a = c * prod f_i^e_i, and
    every f_i is irreducible over Q. No run-computed condition. Together with the unconditional
    [content_is_signed_content], [factors_primitive_positive], [multiplicities_positive],
    [multiplicities_exact_input], [factors_pairwise_distinct] this is the whole property C07 for such inputs. *)
Theorem factorize_correct_sized md (a : seq Z) r c l cof r' : canonZ a -> (size a <= 26)%N ->
  (forall x, x \in a -> (Z.log2 (Z.abs x) < 16777216)%ZZ) ->
  factorize_full md a r = Done (c, l, cof, r') ->
  [/\ cof = [:: 1%ZZ], Poly a = c *: fprod l
    & forall fe, fe \in l -> irreducible_poly (Poly fe.1)].
Proof. exact (@W5Sized.factorize_full_sized md a r c l cof r'). Qed.
(* the hypotheses hold for x^4 - 10x^2 + 1 and -6(x^2+x+1)(2x^2+1), whose complete runs are the Examples above *)
Example ex_sized_hyp :
  let a := [:: 1; 0; -10; 0; 1]%ZZ in let b := [:: -6; -6; -18; -12; -12]%ZZ in
  [/\ canonZ a, (size a <= 26)%N & forall x, x \in a -> (Z.log2 (Z.abs x) < 16777216)%ZZ] /\
  [/\ canonZ b, (size b <= 26)%N & forall x, x \in b -> (Z.log2 (Z.abs x) < 16777216)%ZZ].
Proof.
have h (s : seq Z) : all (fun x => Z.ltb (Z.log2 (Z.abs x)) 16777216) s ->
  forall x, x \in s -> (Z.log2 (Z.abs x) < 16777216)%ZZ by move=> /allP hs x /hs /Z.ltb_lt.
by split; split=> //; exact: h.
Qed.

(** * Seventh wave: the prime search returns on the fuel the model supplies (Refine/W7C07Det.v, W7C07Fuel.v).

    A prime is rejected only if it divides D = lc(q) * Res(q', q) ([find_prime_small]); k distinct rejected primes
    give 2^k <= |D|; and |D| <= n^n ||q||_1^(2n) < 2^(prime_fuel q - 8) by the row-sum bound of the Sylvester
    determinant (n = deg q). The primes tried are real primes: the iterator returns (C19 [primes_next_total]) and
    the modular routines [poly_mod], [differential], [poly_gcd] are total modulo a prime. The [as i32] wrap is
    excluded by a hypothesis: some prime below 2^31 does not divide D ([..._of_small_prime], no size condition),
    which holds whenever [prime_fuel q <= 2^30] ([find_prime_terminates], a condition on the size of q only:
    |D| then has fewer than 2^30 bits and the product of the primes below 2^31 has more).
    Within these bounds this section and the next supersede the lines "NOT proved: termination of the prime search" and
    "absence of panics" of the headers above; termination of the modular factorisation for all draw streams stays open. *)
From RNT.Refine Require Import W7C07Det W7C07Fuel.
From mathcomp Require Import ssrnum.

(** ** [P] determinant_row_sum_bound: |det A| <= prod_i sum_j |A i j| over any numeric domain;
    resultant_l1_bound: |Res(p, q)| <= ||p||_1^(deg q) * ||q||_1^(deg p), [norm1 p = \sum_(i < size p) `|p`_i|] *)
Theorem determinant_row_sum_bound (R : numDomainType) n (A : 'M[R]_n) :
  (`|\det A| <= \prod_i \sum_j `|A i j|)%R.
Proof. exact: W7C07Det.det_row_sum_le. Qed.
Theorem resultant_l1_bound (R : numDomainType) (p q : {poly R}) :
  (`|resultant p q| <= norm1 p ^+ (size q).-1 * norm1 q ^+ (size p).-1)%R.
Proof. exact: W7C07Det.resultant_row_sum_le. Qed.

(** ** [P] discriminant_below_fuel: for a canonical non-constant q, |lc(q) Res(q', q)| < 2^(prime_fuel q - 8) *)
Theorem discriminant_below_fuel (q : seq Z) : canonZ q -> (1 < size q)%N ->
  (Z.abs (lead_coef (Poly q) * resultant (Poly q)^`() (Poly q)) < 2 ^ (Z.of_nat (prime_fuel q) - 8))%ZZ.
Proof. exact (@W7C07Fuel.disc_lt_pow2_fuel q). Qed.
(* x^4 - 10x^2 + 1: lc * Res = 147456 < 2^70 *)
Example ex_discriminant_below_fuel : prime_fuel [:: 1; 0; -10; 0; 1]%ZZ = 78%N /\ (147456 < 2 ^ 70)%ZZ.
Proof. by split; vm_compute. Qed.

(** ** [P] find_prime_terminates_of_small_prime: for a canonical non-constant q and any prime p0 < 2^31 not
    dividing lc(q) * Res(q', q), the search [find_prime (prime_fuel q) q 2] -- the call made by
    [get_factors_of_squarefree] -- returns (no OutOfFuel, no panic) a prime p <= p0 equal to its machine-word copy. *)
Theorem find_prime_terminates_of_small_prime (q : seq Z) (p0 : Z) : canonZ q -> (1 < size q)%N ->
  Znumtheory.prime p0 -> (p0 < 2147483648)%ZZ ->
  ~ (p0 | lead_coef (Poly q) * resultant (Poly q)^`() (Poly q))%ZZ ->
  exists p, [/\ find_prime (prime_fuel q) q 2 = Done (p, p), Znumtheory.prime p & (p <= p0)%ZZ].
Proof. exact (@W7C07Fuel.find_prime_terminates_of_small_prime q p0). Qed.

(** ** [P] find_prime_terminates: for every canonical non-constant q, square-free over Q, with
    prime_fuel q = 2 len (log2 ||q||_1 + log2 len + 2) + 8 <= 2^30 (a condition on the size of q only; for
    degree 25 it allows coefficients of 20 million bits), the search returns a prime below 2^31, not wrapped.
    Full statement (not proved; beyond this size the faithful model wraps primes above 2^31 to negative moduli and
    the tests made with them are no longer divisibility tests): the same without the size condition. *)
Theorem find_prime_terminates (q : seq Z) : canonZ q -> (1 < size q)%N ->
  separable_poly (Poly q) -> (Z.of_nat (prime_fuel q) <= 1073741824)%ZZ ->
  exists p, [/\ find_prime (prime_fuel q) q 2 = Done (p, p), Znumtheory.prime p & (p < 2147483648)%ZZ].
Proof. exact (@W7C07Fuel.find_prime_terminates q). Qed.
(* x^4 - 10x^2 + 1 and -6(x^2+x+1)(2x^2+1) meet the hypotheses (fuel 78 and 98; the search on the first returns 5) *)
Example ex_find_prime_terminates :
  let a := [:: 1; 0; -10; 0; 1]%ZZ in let b := [:: -6; -6; -18; -12; -12]%ZZ in
  [/\ canonZ a, (1 < size a)%N, separable_poly (Poly a) & (Z.of_nat (prime_fuel a) <= 1073741824)%ZZ] /\
  [/\ canonZ b, (1 < size b)%N, separable_poly (Poly b) & (Z.of_nat (prime_fuel b) <= 1073741824)%ZZ] /\
  find_prime (prime_fuel a) a 2 = Done (5%ZZ, 5%ZZ).
Proof.
have [sa sb] := ex_separable_hyp.
by split; [split=> //; apply/Z.leb_le; vm_compute | split; [split=> //; apply/Z.leb_le; vm_compute | vm_compute]].
Qed.

(** * Seventh wave, continued: no panic inside the modular factorisation, the Hensel lifting and the recombination
    on the inputs [factorize] passes to them (Refine/W7C07Stages.v, W7C07Recombine.v, W7C07Sized.v, W7C07NoPanic.v).

    Once the prime search has returned an unwrapped prime p for the square-free part q (degree 1..25):
    the coefficient bound and the exponent loop return ([coefficient_bound_no_overflow], [exponent_loop_spec]);
    [factorize_mod_p] returns or exhausts the retry fuel of its randomised stages (C08 [factorize_mod_p_no_panic]);
    q mod p is square-free (p passed the gcd test of the search), so every modular multiplicity is 1 and the check of
    the multiplicities passes; the modular factors are monic, irreducible and pairwise distinct, hence pairwise
    coprime with Bezout witnesses in Z[x], so [lift_factorization] returns (C11 [lift_factorization_total]); there
    are at most deg q <= 25 lifted factors, so the [assert!(lifted.len() <= 25)] passes; in every subset test
    the indices are in range, the modulus is non-zero, the product is non-zero modulo p^e (so [prod.deg() + 1] does
    not overflow) and the [expect] cannot fire; the recombination loop terminates on its fuel. The only outcome other
    than a value is OutOfFuel, exactly when the modular factorisation ran out of its retry fuel. *)
From RNT.Refine Require Import W7C07NoPanic.
From RNT.Model Require Import FactorModP.

(** ** [C] squarefree_factors_no_panic_partial: conditional on a value the run computes (the prime search returned a
    prime equal to its machine-word copy). Full statement: [squarefree_factors_no_panic_sized] below discharges the
    condition for inputs within a size bound; without a size bound it is not proved. *)
Theorem squarefree_factors_no_panic_partial md (q : seq Z) r p : canonZ q -> (1 < size q)%N -> (size q <= 26)%N ->
  find_prime (prime_fuel q) q 2 = Done (p, p) ->
  (exists fs r', get_factors_of_squarefree md q r = Done (fs, r')) \/
  (get_factors_of_squarefree md q r = OutOfFuel /\ factorize_mod_p md q p p r = OutOfFuel).
Proof. exact (@W7C07NoPanic.get_factors_core md q r p). Qed.

(** ** [P] squarefree_factors_no_panic_sized: for every canonical q of degree 1..25, square-free over Q, with
    prime_fuel q <= 2^30, every draw stream and both profiles: [get_factors_of_squarefree] returns a value, or runs out
    of fuel and then the prime search had returned a prime p and [factorize_mod_p] ran out of its retry fuel. No panic. *)
Theorem squarefree_factors_no_panic_sized md (q : seq Z) r : canonZ q -> (1 < size q)%N -> (size q <= 26)%N ->
  separable_poly (Poly q) -> (Z.of_nat (prime_fuel q) <= 1073741824)%ZZ ->
  (exists fs r', get_factors_of_squarefree md q r = Done (fs, r')) \/
  (get_factors_of_squarefree md q r = OutOfFuel /\
   exists p, [/\ find_prime (prime_fuel q) q 2 = Done (p, p), Znumtheory.prime p & factorize_mod_p md q p p r = OutOfFuel]).
Proof. exact (@W7C07NoPanic.get_factors_no_panic_sized md q r). Qed.

(** ** [P] factorize_no_panic_sized: for EVERY canonical input of degree <= 25 whose coefficients have at most
    2^24 bits (the inputs of [factorize_correct_sized]), every draw stream and both profiles: [factorize] returns a
    value, or runs out of fuel and then it was the modular factorisation of the square-free part q = pp / gcd(pp, pp') modulo
    the prime p found by the search that ran out of its retry fuel (400 failed random splits in a row or 4096 rejected samples: a
    probability-zero event for a true random stream; the Rust code would keep drawing). No panic: none of the
    [assert!], [expect], index, overflow or division-by-zero panics of poly_z::factorize, poly_mod::factorize_mod_p,
    hensel::lift_factorization and their helpers is reachable from these inputs. *)
Theorem factorize_no_panic_sized md (a : seq Z) r : canonZ a -> (size a <= 26)%N ->
  (forall x, x \in a -> (Z.log2 (Z.abs x) < 16777216)%ZZ) ->
  (exists c l r', factorize md a r = Done (c, l, r')) \/
  (factorize md a r = OutOfFuel /\
   exists g q p, [/\ (Resultant.resultant_gcd (cont_pp a).2 (pdiff opsZ (cont_pp a).2)).2 = Done g, div_exact (cont_pp a).2 g = Some q,
                      find_prime (prime_fuel q) q 2 = Done (p, p) & factorize_mod_p md q p p r = OutOfFuel]).
Proof. exact (@W7C07NoPanic.factorize_no_panic_sized md a r). Qed.
(* both alternatives occur on x^4 - 10x^2 + 1 (hypotheses: [ex_sized_hyp]): with the 16 bytes of [ex_swinnerton_dyer] the
   run returns; on the empty draw stream (all draws 0) the equal-degree splitting modulo 5 fails 400 times *)
Example ex_factorize_no_panic :
  let a := [:: 1; 0; -10; 0; 1]%ZZ in
  factorize Checked a (rng_of [:: 13; 200; 7; 99; 45; 1; 250; 33; 17; 88; 91; 4; 5; 6; 7; 8]%ZZ)
    = Done (1%ZZ, [:: ([:: 1; 0; -10; 0; 1], 1)]%ZZ, rng_of [::])
  /\ factorize Checked a (rng_of [::]) = OutOfFuel
  /\ find_prime (prime_fuel a) a 2 = Done (5%ZZ, 5%ZZ) /\ factorize_mod_p Checked a 5 5 (rng_of [::]) = OutOfFuel.
Proof. by vm_compute. Qed.
