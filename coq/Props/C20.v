(** C20: LLL, short vectors (statements only; proofs in Refine/Lll*.v).

    The model [Lll.lll] is written once over a record [arith] of arithmetic operations; the code's
    binary64 arithmetic is one instance ([LllFloat.arithF], compared bit-exactly with the code by the
    correspondence check), exact rational arithmetic another ([Lll.arithQ]). Theorems quantified
    over [arith] hold for the binary64 instance too, without mentioning floats. *)
From RNT.Model Require Import Base Lll.
From RNT.Refine Require Import LllBasic LllMat LllH LllHB LllShort LllShortSpec LllReduced LllGS.
From Coq Require Import QArith Qcanon.
Open Scope Z_scope.

(** [P] fewer than two rows: the code indexes out of bounds (lll.rs:38, 104), for every arithmetic. *)
Theorem lll_small_panics : forall T (F : arith T) fuel (basis : list (list T)),
  (length basis < 2)%nat -> lll F fuel basis = Panic PIndex.
Proof. exact LllBasic.lll_small_panics. Qed.

(** [P] For EVERY arithmetic (in particular the code's floating point, whatever its rounding does),
    every input and every fuel: if the run returns (B', H), then H is obtained from the identity by
    exchanges of adjacent rows and additions of an integer multiple of one row to another row
    ([elem_reachable]), and H has a two-sided integer inverse ([zmmul] = integer matrix product). *)
Theorem lll_H_unimodular : forall (T : Type) (F : arith T) (fuel : nat) (B B' : list (list T)) (H : list (list Z)),
  lll F fuel B = Done (B', H) ->
  let n := length B in
  elem_reachable n H /\
  exists H', zwf n H /\ zwf n H' /\ zmmul n H' H = identity n /\ zmmul n H H' = identity n.
Proof. exact LllH.lll_H_unimodular. Qed.

(** [P] (exact arithmetic) for every square input, B' = H * B. *)
Theorem lll_HB : forall (fuel : nat) (B B' : list (list Qc)) (H : list (list Z)),
  lll arithQ fuel B = Done (B', H) ->
  Forall (fun r => length r = length B) B ->
  B' = qmmul (length B) (injM H) B.
Proof. exact LllHB.lll_HB. Qed.

(** [C] (exact arithmetic) reducedness, conditional on the flag the model evaluates on its own output
    ([is_lll_reduced]: exact Gram-Schmidt by the textbook formulas). [lll_reduced_prop 3/4 B'] says: the
    Gram-Schmidt vectors of B' are non-zero, |mu_ij| <= 1/2 for j < i, and
    (3/4 - mu_{i+1,i}^2) |b*_i|^2 <= |b*_{i+1}|^2.
    Full statement (NOT proved: needs the loop invariant "mu, b are the Gram-Schmidt data of the current
    basis" and termination):
      forall B B' H, lll_exact B = Done (B', H) -> (B square, non-singular) -> lll_reduced_prop 3/4 B'. *)
Theorem lll_reduced_partial : forall (B B' : list (list Qc)) (H : list (list Z)),
  lll_exact_checked B = Done (B', H, true) -> lll_reduced_prop Qc_34 B'.
Proof. exact LllReduced.lll_reduced_partial. Qed.

(** [P] (exact arithmetic) the two mutators of the main loop keep the Gram-Schmidt bookkeeping exact.
    [gs_rel n s]: for the rows 0..kmax of the current n x n basis, the maintained [bstar], [mu], [b] satisfy
    b_i = b*_i + sum_{j<i} mu_ij b*_j,  <b*_i, b*_j> = 0 (i <> j),  B_i = <b*_i, b*_i>
    (the relations that characterise the Gram-Schmidt orthogonalisation); [wfstate n s]: shapes.
    RED(k, l) for l < k <= kmax, SWAP(k) for k + 1 <= kmax when the new |b*_k|^2 is not zero
    (always the case for a non-singular basis).
    (On the original tree both statements were false: defect D9, fixed in /repo by 6e674bd.) *)
Theorem red_preserves_gs : forall (n : nat) (s : lstate) (k l : nat) (s' : lstate),
  wfstate n s -> gs_rel n s -> (l < k)%nat -> (k <= l_kmax s)%nat ->
  red arithQ n s k l = Done s' -> wfstate n s' /\ gs_rel n s'.
Proof. exact LllGS.red_preserves_gs. Qed.

Theorem swap_preserves_gs : forall (n : nat) (s : lstate) (k : nat) (s' : lstate),
  wfstate n s -> gs_rel n s -> (k + 1 <= l_kmax s)%nat ->
  Qcplus (Nb s (k + 1)) (Qcmult (Qcmult (Mu s (k + 1) k) (Mu s (k + 1) k)) (Nb s k)) <> Q2Qc 0 ->
  swap arithQ n s k = Done s' -> wfstate n s' /\ gs_rel n s'.
Proof. exact LllGS.swap_preserves_gs. Qed.

(** [P] (exact arithmetic) soundness of the enumeration, for every decomposition q and bound c: every
    returned pair (v, x) has a non-zero x of the right length, v is the value [find_value] computes
    from the decomposition at x, and v <= c. *)
Theorem short_vectors_sound : forall (q : list (list Qc)) (c : Qc) (l : list (Qc * list Z)),
  find_short_vectors arithQ q c = Done l ->
  Forall (fun vx =>
            length (snd vx) = length q /\
            forallb (Z.eqb 0) (snd vx) = false /\
            find_value arithQ q (map (fofZ arithQ) (snd vx)) = Done (fst vx) /\
            Qcle (fst vx) c) l.
Proof. exact LllShort.short_vectors_sound. Qed.

(** [P] (exact arithmetic) completeness, for every decomposition with positive diagonal
    ([posdiag q]: q_ii > 0, what [Cholesky::find] yields for a positive-definite form):
    - c >= 0: the call returns, without repetition, exactly the vectors y of the right length with
      value [qvalue q y] = sum_i q_ii (y_i + sum_{j>i} q_ij y_j)^2 <= c whose highest non-zero
      coordinate is negative ([lexneg_below y n]);
    - c < 0: the code panics ([unwrap_err] on [Ok]). *)
Theorem short_vectors_complete : forall (q : list (list Qc)) (c : Qc), posdiag q ->
  (Qcle (Q2Qc 0) c ->
   exists l, find_short_vectors arithQ q c = Done l /\ NoDup (map snd l) /\
     forall y, length y = length q ->
       (In y (map snd l) <-> (Qcle (qvalue q y) c /\ lexneg_below y (length q)))) /\
  (Qclt c (Q2Qc 0) -> find_short_vectors arithQ q c = Panic POther).
Proof. exact LllShortSpec.short_vectors_complete. Qed.

(** [P] (exact arithmetic) [short_vectors_spec]: no repetition; every member is a non-zero vector of
    value <= c; for every non-zero integer vector y with value <= c exactly one of y, -y is a member. *)
Theorem short_vectors_spec : forall (q : list (list Qc)) (c : Qc) (l : list (Qc * list Z)),
  posdiag q -> find_short_vectors arithQ q c = Done l ->
  NoDup (map snd l) /\
  (forall y, In y (map snd l) -> length y = length q /\ forallb (Z.eqb 0) y = false /\ Qcle (qvalue q y) c) /\
  (forall y, length y = length q -> forallb (Z.eqb 0) y = false -> Qcle (qvalue q y) c ->
     (In y (map snd l) /\ ~ In (vneg y) (map snd l)) \/ (~ In y (map snd l) /\ In (vneg y) (map snd l))).
Proof. exact LllShortSpec.short_vectors_spec. Qed.

(** Non-vacuity: the run returns on a 3x3 and a 4x4 integer basis, with H different from the identity. *)
Definition qmat (m : list (list Z)) : list (list Qc) := map (map Qc_of_Z) m.
Definition shown (r : outcome (list (list Qc) * list (list Z) * bool)) :=
  omap (fun r => (map (map this) (fst (fst r)), snd (fst r), snd r)) r.

Example lll_ex3 :
  shown (lll_exact_checked (qmat [[1;1;1];[-1;0;2];[3;5;6]]))
  = Done ([[0;1;0];[1;0;1];[-2;0;1]]%Q, [[-4;-1;1];[5;1;-1];[-5;0;1]], true).
Proof. vm_compute. reflexivity. Qed.

Example lll_ex4 :
  shown (lll_exact_checked (qmat [[1;0;0;1345];[0;1;0;35];[0;0;1;154];[7;5;-3;11]]))
  = Done ([[0;9;-2;7];[6;-1;7;-4];[1;1;-9;-6];[7;-4;-1;4]]%Q, [[0;9;-2;0];[-1;-6;10;1];[1;1;-9;0];[0;-9;2;1]], true).
Proof. vm_compute. reflexivity. Qed.

(** Non-vacuity of the enumeration theorems: the form 2x^2 + 2xy + y^2 with bound 3 (the unit test). *)
Example short_ex :
  omap (map (fun vx => (this (fst vx), snd vx)))
       (do q <- cholesky_find_exact (qmat [[2;1];[1;1]]); find_short_vectors_exact q (Qc_of_Z 3))
  = Done [(2%Q, [1;-2]); (1%Q, [0;-1]); (1%Q, [1;-1]); (2%Q, [-1;0])].
Proof. vm_compute. reflexivity. Qed.

(** ... and its decomposition has a positive diagonal. *)
Example posdiag_ex :
  exists q, cholesky_find_exact (qmat [[2;1];[1;1]]) = Done q /\ posdiag q.
Proof.
  eexists. split; [vm_compute; reflexivity|].
  intros i Hi. cbn [length] in Hi.
  destruct i as [|[|i]]; [vm_compute; reflexivity|vm_compute; reflexivity|exfalso; inversion Hi as [|? H1]; inversion H1 as [|? H2]; inversion H2].
Qed.

(** Non-vacuity of the Gram-Schmidt theorems: the basis (1,0),(1,1) with its Gram-Schmidt data. *)
Definition gs_state : lstate (T:=Qc) :=
  mkL 1%nat 1%nat (qmat [[1;0];[1;1]]) (qmat [[1;0];[0;1]]) (map Qc_of_Z [1;1]) (qmat [[0;0];[1;0]]) (identity 2).

Example gs_state_ok : wfstate 2 gs_state /\ gs_rel 2 gs_state.
Proof.
  split.
  - unfold wfstate, square, squareZ. cbn. repeat split; repeat constructor.
  - constructor; cbn [l_kmax gs_state].
    + intros i p Hi. destruct i as [|[|i]]; [| |exfalso; inversion Hi as [|? H1]; inversion H1];
        destruct p as [|[|[|p]]]; vm_compute; reflexivity.
    + intros i j Hi Hj Hne.
      destruct i as [|[|i]]; [| |exfalso; inversion Hi as [|? H1]; inversion H1];
        (destruct j as [|[|j]]; [| |exfalso; inversion Hj as [|? H1]; inversion H1]);
        try (exfalso; apply Hne; reflexivity); vm_compute; reflexivity.
    + intros i Hi. destruct i as [|[|i]]; [| |exfalso; inversion Hi as [|? H1]; inversion H1]; vm_compute; reflexivity.
Qed.

Example gs_state_moves :
  (exists s', red arithQ 2 gs_state 1 0 = Done s' /\ s' <> gs_state) /\
  (exists s', swap arithQ 2 gs_state 0 = Done s') /\
  Qcplus (Nb gs_state 1) (Qcmult (Qcmult (Mu gs_state 1 0) (Mu gs_state 1 0)) (Nb gs_state 0)) <> Q2Qc 0.
Proof.
  split; [|split].
  - eexists. split; [vm_compute; reflexivity|]. intros H. apply (f_equal (fun s => map (map this) (l_basis s))) in H.
    vm_compute in H. discriminate.
  - eexists. vm_compute. reflexivity.
  - intros H. apply (f_equal this) in H. vm_compute in H. discriminate.
Qed.
