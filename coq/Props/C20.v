(** C20: LLL, short vectors (statements only; proofs in Refine/Lll*.v).

    The model [Lll.lll] is written once over a record [arith] of arithmetic operations; the code's
    binary64 arithmetic is one instance ([LllFloat.arithF], compared bit-exactly with the code by the
    correspondence check), exact rational arithmetic another ([Lll.arithQ]). Theorems quantified
    over [arith] hold for the binary64 instance too, without mentioning floats. *)
From RNT.Model Require Import Base Lll.
From RNT.Refine Require Import LllBasic LllMat LllH LllHB LllShort LllShortSpec LllReduced LllGS.
From RNT.Refine Require Import LllExitStep2 LllExitIndep LllExitLoop LllExitGS LllExitTotal LllExit LllExitPotential.
From RNT.Refine Require Import LllExitFull LllExitTerm.
From RNT.Refine Require LllExitDet.
From RNT.Refine Require Import CholAlg CholLoops CholFind.
From Coq Require Import Lia QArith Qcanon.
Open Scope Z_scope.

(** [P] fewer than two rows: the code indexes out of bounds (lll.rs:38, 104), for every arithmetic. *)
Theorem lll_small_panics : forall T (F : arith T) fuel (basis : list (list T)),
  (length basis < 2)%nat -> lll F fuel basis = Panic PIndex.
Proof. exact LllBasic.lll_small_panics. Qed.

(** [P] For EVERY arithmetic (in particular the code's floating point, whatever its rounding does),
    every input and every fuel: if the run returns (B', H), then H is obtained from the identity by
    exchanges of adjacent rows and additions of an integer multiple of one row to another row
    ([elem_reachable]), and H has a two-sided integer inverse ([zmmul] = integer matrix product). *)
Theorem lll_H_unimodular : forall (T : Type) (F : arith T) (fuel : nat) (B B' : list (list T)) (H : list (list Z)),
  lll F fuel B = Done (B', H) ->
  let n := length B in
  elem_reachable n H /\
  exists H', zwf n H /\ zwf n H' /\ zmmul n H' H = identity n /\ zmmul n H H' = identity n.
Proof. exact LllH.lll_H_unimodular. Qed.

(** [P] (exact arithmetic) for every square input, B' = H * B. *)
Theorem lll_HB : forall (fuel : nat) (B B' : list (list Qc)) (H : list (list Z)),
  lll arithQ fuel B = Done (B', H) ->
  Forall (fun r => length r = length B) B ->
  B' = qmmul (length B) (injM H) B.
Proof. exact LllHB.lll_HB. Qed.

(** [C] (exact arithmetic) reducedness, conditional on the flag the model evaluates on its own output
    ([is_lll_reduced]: exact Gram-Schmidt by the textbook formulas). [lll_reduced_prop 3/4 B'] says: the
    Gram-Schmidt vectors of B' are non-zero, |mu_ij| <= 1/2 for j < i, and
    (3/4 - mu_{i+1,i}^2) |b*_i|^2 <= |b*_{i+1}|^2.
    Full statement (NOT proved: needs the loop invariant "mu, b are the Gram-Schmidt data of the current
    basis" and termination):
      forall B B' H, lll_exact B = Done (B', H) -> (B square, non-singular) -> lll_reduced_prop 3/4 B'. *)
Theorem lll_reduced_partial : forall (B B' : list (list Qc)) (H : list (list Z)),
  lll_exact_checked B = Done (B', H, true) -> lll_reduced_prop Qc_34 B'.
Proof. exact LllReduced.lll_reduced_partial. Qed.

(** [P] (exact arithmetic) the two mutators of the main loop keep the Gram-Schmidt bookkeeping exact.
    [gs_rel n s]: for the rows 0..kmax of the current n x n basis, the maintained [bstar], [mu], [b] satisfy
    b_i = b*_i + sum_{j<i} mu_ij b*_j,  <b*_i, b*_j> = 0 (i <> j),  B_i = <b*_i, b*_i>
    (the relations that characterise the Gram-Schmidt orthogonalisation); [wfstate n s]: shapes.
    RED(k, l) for l < k <= kmax, SWAP(k) for k + 1 <= kmax when the new |b*_k|^2 is not zero
    (always the case for a non-singular basis).
    (On the original tree both statements were false: defect D9, fixed in /repo by 6e674bd.) *)
Theorem red_preserves_gs : forall (n : nat) (s : lstate) (k l : nat) (s' : lstate),
  wfstate n s -> gs_rel n s -> (l < k)%nat -> (k <= l_kmax s)%nat ->
  red arithQ n s k l = Done s' -> wfstate n s' /\ gs_rel n s'.
Proof. exact LllGS.red_preserves_gs. Qed.

Theorem swap_preserves_gs : forall (n : nat) (s : lstate) (k : nat) (s' : lstate),
  wfstate n s -> gs_rel n s -> (k + 1 <= l_kmax s)%nat ->
  Qcplus (Nb s (k + 1)) (Qcmult (Qcmult (Mu s (k + 1) k) (Mu s (k + 1) k)) (Nb s k)) <> Q2Qc 0 ->
  swap arithQ n s k = Done s' -> wfstate n s' /\ gs_rel n s'.
Proof. exact LllGS.swap_preserves_gs. Qed.

(** [P] (exact arithmetic) soundness of the enumeration, for every decomposition q and bound c: every
    returned pair (v, x) has a non-zero x of the right length, v is the value [find_value] computes
    from the decomposition at x, and v <= c. *)
Theorem short_vectors_sound : forall (q : list (list Qc)) (c : Qc) (l : list (Qc * list Z)),
  find_short_vectors arithQ q c = Done l ->
  Forall (fun vx =>
            length (snd vx) = length q /\
            forallb (Z.eqb 0) (snd vx) = false /\
            find_value arithQ q (map (fofZ arithQ) (snd vx)) = Done (fst vx) /\
            Qcle (fst vx) c) l.
Proof. exact LllShort.short_vectors_sound. Qed.

(** [P] (exact arithmetic) completeness, for every decomposition with positive diagonal
    ([posdiag q]: q_ii > 0, what [Cholesky::find] yields for a positive-definite form):
    - c >= 0: the call returns, without repetition, exactly the vectors y of the right length with
      value [qvalue q y] = sum_i q_ii (y_i + sum_{j>i} q_ij y_j)^2 <= c whose highest non-zero
      coordinate is negative ([lexneg_below y n]);
    - c < 0: the code panics ([unwrap_err] on [Ok]). *)
Theorem short_vectors_complete : forall (q : list (list Qc)) (c : Qc), posdiag q ->
  (Qcle (Q2Qc 0) c ->
   exists l, find_short_vectors arithQ q c = Done l /\ NoDup (map snd l) /\
     forall y, length y = length q ->
       (In y (map snd l) <-> (Qcle (qvalue q y) c /\ lexneg_below y (length q)))) /\
  (Qclt c (Q2Qc 0) -> find_short_vectors arithQ q c = Panic POther).
Proof. exact LllShortSpec.short_vectors_complete. Qed.

(** [P] (exact arithmetic) [short_vectors_spec]: no repetition; every member is a non-zero vector of
    value <= c; for every non-zero integer vector y with value <= c exactly one of y, -y is a member. *)
Theorem short_vectors_spec : forall (q : list (list Qc)) (c : Qc) (l : list (Qc * list Z)),
  posdiag q -> find_short_vectors arithQ q c = Done l ->
  NoDup (map snd l) /\
  (forall y, In y (map snd l) -> length y = length q /\ forallb (Z.eqb 0) y = false /\ Qcle (qvalue q y) c) /\
  (forall y, length y = length q -> forallb (Z.eqb 0) y = false -> Qcle (qvalue q y) c ->
     (In y (map snd l) /\ ~ In (vneg y) (map snd l)) \/ (~ In y (map snd l) /\ In (vneg y) (map snd l))).
Proof. exact LllShortSpec.short_vectors_spec. Qed.

(** Non-vacuity: the run returns on a 3x3 and a 4x4 integer basis, with H different from the identity. *)
Definition qmat (m : list (list Z)) : list (list Qc) := map (map Qc_of_Z) m.
Definition shown (r : outcome (list (list Qc) * list (list Z) * bool)) :=
  omap (fun r => (map (map this) (fst (fst r)), snd (fst r), snd r)) r.

Example lll_ex3 :
  shown (lll_exact_checked (qmat [[1;1;1];[-1;0;2];[3;5;6]]))
  = Done ([[0;1;0];[1;0;1];[-2;0;1]]%Q, [[-4;-1;1];[5;1;-1];[-5;0;1]], true).
Proof. vm_compute. reflexivity. Qed.

Example lll_ex4 :
  shown (lll_exact_checked (qmat [[1;0;0;1345];[0;1;0;35];[0;0;1;154];[7;5;-3;11]]))
  = Done ([[0;9;-2;7];[6;-1;7;-4];[1;1;-9;-6];[7;-4;-1;4]]%Q, [[0;9;-2;0];[-1;-6;10;1];[1;1;-9;0];[0;-9;2;1]], true).
Proof. vm_compute. reflexivity. Qed.

(** Non-vacuity of the enumeration theorems: the form 2x^2 + 2xy + y^2 with bound 3 (the unit test). *)
Example short_ex :
  omap (map (fun vx => (this (fst vx), snd vx)))
       (do q <- cholesky_find_exact (qmat [[2;1];[1;1]]); find_short_vectors_exact q (Qc_of_Z 3))
  = Done [(2%Q, [1;-2]); (1%Q, [0;-1]); (1%Q, [1;-1]); (2%Q, [-1;0])].
Proof. vm_compute. reflexivity. Qed.

(** ... and its decomposition has a positive diagonal. *)
Example posdiag_ex :
  exists q, cholesky_find_exact (qmat [[2;1];[1;1]]) = Done q /\ posdiag q.
Proof.
  eexists. split; [vm_compute; reflexivity|].
  intros i Hi. cbn [length] in Hi.
  destruct i as [|[|i]]; [vm_compute; reflexivity|vm_compute; reflexivity|exfalso; inversion Hi as [|? H1]; inversion H1 as [|? H2]; inversion H2].
Qed.

(** Non-vacuity of the Gram-Schmidt theorems: the basis (1,0),(1,1) with its Gram-Schmidt data. *)
Definition gs_state : lstate (T:=Qc) :=
  mkL 1%nat 1%nat (qmat [[1;0];[1;1]]) (qmat [[1;0];[0;1]]) (map Qc_of_Z [1;1]) (qmat [[0;0];[1;0]]) (identity 2).

Example gs_state_ok : wfstate 2 gs_state /\ gs_rel 2 gs_state.
Proof.
  split.
  - unfold wfstate, square, squareZ. cbn. repeat split; repeat constructor.
  - constructor; cbn [l_kmax gs_state].
    + intros i p Hi. destruct i as [|[|i]]; [| |exfalso; inversion Hi as [|? H1]; inversion H1];
        destruct p as [|[|[|p]]]; vm_compute; reflexivity.
    + intros i j Hi Hj Hne.
      destruct i as [|[|i]]; [| |exfalso; inversion Hi as [|? H1]; inversion H1];
        (destruct j as [|[|j]]; [| |exfalso; inversion Hj as [|? H1]; inversion H1]);
        try (exfalso; apply Hne; reflexivity); vm_compute; reflexivity.
    + intros i Hi. destruct i as [|[|i]]; [| |exfalso; inversion Hi as [|? H1]; inversion H1]; vm_compute; reflexivity.
Qed.

Example gs_state_moves :
  (exists s', red arithQ 2 gs_state 1 0 = Done s' /\ s' <> gs_state) /\
  (exists s', swap arithQ 2 gs_state 0 = Done s') /\
  Qcplus (Nb gs_state 1) (Qcmult (Qcmult (Mu gs_state 1 0) (Mu gs_state 1 0)) (Nb gs_state 0)) <> Q2Qc 0.
Proof.
  split; [|split].
  - eexists. split; [vm_compute; reflexivity|]. intros H. apply (f_equal (fun s => map (map this) (l_basis s))) in H.
    vm_compute in H. discriminate.
  - eexists. vm_compute. reflexivity.
  - intros H. apply (f_equal this) in H. vm_compute in H. discriminate.
Qed.


(** * Second wave: reducedness at exit (exact arithmetic), without the flag *)

(** [P] (exact arithmetic) step 2 (lll.rs:102-112, the incremental Gram-Schmidt of a row reached for the
    first time, k = kmax + 1) establishes the Gram-Schmidt relation for rows 0..k, given it for rows
    0..kmax with non-zero |b*_j|^2. *)
Theorem step2_preserves_gs : forall (n : nat) (s : lstate),
  wfstate n s -> (l_k s < n)%nat -> gs_rel n s -> l_k s = S (l_kmax s) ->
  (forall j, (j <= l_kmax s)%nat -> Nb s j <> Q2Qc 0) ->
  wfstate n (step2 arithQ s) /\ gs_rel n (step2 arithQ s).
Proof. exact LllExitStep2.step2_preserves_gs. Qed.

(** [P] (exact arithmetic) the invariant of the outer loop. [linv n s]: shapes, [gs_rel] for rows 0..kmax,
    |b*_i|^2 > 0 for i <= kmax, rows of the basis linearly independent; [prefix_red s k]: for every row
    i < k, |mu_ij| <= 1/2 (j < i) and (3/4 - mu_{i,i-1}^2) |b*_{i-1}|^2 <= |b*_i|^2 (i >= 1).
    From a state with 1 <= k < n, k <= kmax + 1 that satisfies both, a run of [main_loop] that returns
    ends with kmax = n - 1 and all n rows reduced (the loop exits only with k + 1 >= n, after row k was
    size-reduced by the descending loop and passed the Lovasz test). *)
Theorem main_loop_inv : forall (n fuel : nat) (s s' : lstate),
  main_loop arithQ fuel n s = Done s' ->
  linv n s -> (1 <= l_k s < n)%nat -> (l_k s <= S (l_kmax s))%nat -> prefix_red s (l_k s) ->
  linv n s' /\ S (l_kmax s') = n /\ prefix_red s' n.
Proof. exact LllExitLoop.main_loop_inv. Qed.

(** [P] (exact arithmetic) [lll_reduced_exact]: for every square rational basis B (>= 2 rows, else the
    run panics: [lll_small_panics]) whose rows are linearly independent ([rows_independent]: no non-trivial
    rational combination of the rows vanishes, i.e. B is non-singular) and EVERY fuel: if the run returns
    (B', H) then the model-evaluated predicate [is_lll_reduced B'] is [true], i.e. ([lll_reduced_prop])
    the Gram-Schmidt vectors of B' (textbook formulas) are non-zero, |mu_ij| <= 1/2 for j < i and
    (3/4 - mu_{i+1,i}^2) |b*_i|^2 <= |b*_{i+1}|^2. This removes the flag from [lll_reduced_partial].
    (Termination, i.e. that [lll_fuel] suffices, is NOT proved.) *)
Theorem lll_reduced_exact : forall (fuel : nat) (B B' : list (list Qc)) (H : list (list Z)),
  Forall (fun r => length r = length B) B -> rows_independent B ->
  lll arithQ fuel B = Done (B', H) ->
  is_lll_reduced B' = true.
Proof. exact LllExit.lll_reduced_exact. Qed.

Theorem lll_reduced_exact_prop : forall (fuel : nat) (B B' : list (list Qc)) (H : list (list Z)),
  Forall (fun r => length r = length B) B -> rows_independent B ->
  lll arithQ fuel B = Done (B', H) ->
  lll_reduced_prop Qc_34 B'.
Proof. exact LllExit.lll_reduced_exact_prop. Qed.

(** [P] the flag computed by [lll_exact_checked] (the run with the model's own fuel) is always [true] on
    such inputs. *)
Theorem lll_exact_checked_flag : forall (B B' : list (list Qc)) (H : list (list Z)) (b : bool),
  Forall (fun r => length r = length B) B -> rows_independent B ->
  lll_exact_checked B = Done (B', H, b) -> b = true.
Proof. exact LllExit.lll_exact_checked_flag. Qed.

(** [P] a criterion for [rows_independent] that can be evaluated: a right inverse. *)
Theorem right_inverse_independent : forall B C : list (list Qc), right_inverse B C -> rows_independent B.
Proof. exact LllExit.right_inverse_independent. Qed.

(** Non-vacuity: the 3x3 and the 4x4 basis of [lll_ex3], [lll_ex4] (on which the run through
    [lll arithQ] returns, see above) are square with linearly independent rows. *)
Ltac ri_cases :=
  let i := fresh "i" in let j := fresh "j" in let Hi := fresh "Hi" in let Hj := fresh "Hj" in
  intros i j Hi Hj;
  destruct i as [|[|[|[|[|i]]]]]; try (exfalso; vm_compute in Hi; lia);
  destruct j as [|[|[|[|[|j]]]]]; try (exfalso; vm_compute in Hj; lia);
  apply Qc_is_canon; vm_compute; reflexivity.

Example lll_ex3_hyps :
  let B := qmat [[1;1;1];[-1;0;2];[3;5;6]] in
  Forall (fun r => length r = length B) B /\ rows_independent B.
Proof.
  split; [repeat constructor|].
  apply (right_inverse_independent _
    [[Q2Qc (10 # 3);Q2Qc (1 # 3);Q2Qc (-2 # 3)];[Q2Qc (-4 # 1);Q2Qc (-1 # 1);Q2Qc (1 # 1)];[Q2Qc (5 # 3);Q2Qc (2 # 3);Q2Qc (-1 # 3)]]).
  ri_cases.
Qed.

Example lll_ex4_hyps :
  let B := qmat [[1;0;0;1345];[0;1;0;35];[0;0;1;154];[7;5;-3;11]] in
  Forall (fun r => length r = length B) B /\ rows_independent B.
Proof.
  split; [repeat constructor|].
  apply (right_inverse_independent _
    [[Q2Qc (-298 # 9117);Q2Qc (-6725 # 9117);Q2Qc (1345 # 3039);Q2Qc (1345 # 9117)];
     [Q2Qc (-245 # 9117);Q2Qc (8942 # 9117);Q2Qc (35 # 3039);Q2Qc (35 # 9117)];
     [Q2Qc (-1078 # 9117);Q2Qc (-770 # 9117);Q2Qc (3193 # 3039);Q2Qc (154 # 9117)];
     [Q2Qc (7 # 9117);Q2Qc (5 # 9117);Q2Qc (-1 # 3039);Q2Qc (-1 # 9117)]]).
  ri_cases.
Qed.

(** ... and the theorem applied to the 4x4 run (no evaluation of the flag involved). *)
Example lll_ex4_reduced : forall B' H,
  lll_exact (qmat [[1;0;0;1345];[0;1;0;35];[0;0;1;154];[7;5;-3;11]]) = Done (B', H) -> is_lll_reduced B' = true.
Proof.
  intros B' H R. destruct lll_ex4_hyps as [Sq Ind].
  exact (lll_reduced_exact _ _ B' H Sq Ind R).
Qed.

(** Non-vacuity of [step2_preserves_gs] / [main_loop_inv]: the initial state of the run on the 3x3 basis
    (k = 1 = kmax + 1: step 2 fires) satisfies the invariant. *)
Example lll_init_inv :
  let B := qmat [[1;1;1];[-1;0;2];[3;5;6]] in
  let zero_row := repeat (f0 arithQ) 3 in
  let s0 := mkL 1 0 B B (set_nth zero_row 0 (norm_sqr arithQ (row B 0))) (repeat zero_row 3) (identity 3) in
  linv 3 s0 /\ prefix_red s0 1 /\ l_k s0 = S (l_kmax s0).
Proof.
  destruct lll_ex3_hyps as [Sq Ind].
  destruct (LllExit.init_linv (qmat [[1;1;1];[-1;0;2];[3;5;6]]) ltac:(vm_compute; lia) Sq Ind) as [L P].
  split; [exact L|]. split; [exact P|reflexivity].
Qed.


(** [P] (exact arithmetic) a run on a square matrix with at least two rows (singular or not) never panics:
    every index is in range and [floor] is total; the outcome is [Done] or [OutOfFuel]. *)
Theorem lll_exact_no_panic : forall (fuel : nat) (B : list (list Qc)) (c : ptag),
  (2 <= length B)%nat -> Forall (fun r => length r = length B) B ->
  lll arithQ fuel B <> Panic c.
Proof. exact LllExitTotal.lll_exact_no_panic. Qed.

(** [P] the LLL clause of the property for the exact instance, in one statement (partial correctness:
    termination is not included): on a non-singular square basis with at least two rows the run never
    panics, and if it returns (B', H) then H is unimodular, B' = H B, and B' is LLL-reduced with 3/4. *)
Theorem lll_exact_correct : forall (fuel : nat) (B : list (list Qc)),
  (2 <= length B)%nat -> Forall (fun r => length r = length B) B -> rows_independent B ->
  (forall c, lll arithQ fuel B <> Panic c) /\
  forall B' H, lll arithQ fuel B = Done (B', H) ->
    (elem_reachable (length B) H /\
     exists H', zwf (length B) H /\ zwf (length B) H' /\
                zmmul (length B) H' H = identity (length B) /\ zmmul (length B) H H' = identity (length B)) /\
    B' = qmmul (length B) (injM H) B /\
    lll_reduced_prop Qc_34 B'.
Proof. exact LllExit.lll_exact_correct. Qed.

(** [P] (exact arithmetic) one step of the termination argument (termination itself is NOT proved).
    [gramdet s i] = |b*_0|^2 ... |b*_i|^2 as maintained in [l_b]. In a state satisfying the loop invariant
    with 1 <= k <= kmax in which the Lovasz test fails, SWAP(k-1) multiplies d_{k-1} by a factor < 3/4,
    leaves every other d_i (i <= kmax) unchanged and keeps all of them positive; RED changes none.
    Missing for termination: a lower bound for the d_i (for integer bases they are positive integers, the
    leading Gram determinants), an upper bound for the initial d_i from the entry size, and the
    arithmetic that [lll_fuel] exceeds the resulting number of swaps + n. *)
Theorem swap_potential : forall (n : nat) (s s' : lstate),
  linv n s -> (1 <= l_k s <= l_kmax s)%nat ->
  lovasz_fails arithQ s = true -> swap arithQ n s (l_k s - 1) = Done s' ->
  Qclt (gramdet s' (l_k s - 1)) (Qcmult Qc_34 (gramdet s (l_k s - 1))) /\
  (forall i, i <> (l_k s - 1)%nat -> (i <= l_kmax s)%nat -> gramdet s' i = gramdet s i) /\
  (forall i, (i <= l_kmax s)%nat -> Qclt (Q2Qc 0) (gramdet s' i)).
Proof. exact LllExitPotential.swap_potential. Qed.

Theorem red_potential : forall (n : nat) (s : lstate) (k l : nat) (s' : lstate),
  wfstate n s -> (l < k)%nat -> (k < n)%nat ->
  red arithQ n s k l = Done s' -> forall i, gramdet s' i = gramdet s i.
Proof. exact LllExitPotential.red_potential. Qed.

(** Non-vacuity of [swap_potential]: the basis (2,0),(1,1) with its Gram-Schmidt data, k = kmax = 1:
    mu_10 = 1/2, B_0 = 4, B_1 = 1 < (3/4 - 1/4) 4. The state satisfies the invariant, the test fails, the
    swap happens and d_0 drops from 4 to 2. *)
Definition pot_state : lstate (T:=Qc) :=
  mkL 1%nat 1%nat (qmat [[2;0];[1;1]]) (qmat [[2;0];[0;1]]) (map Qc_of_Z [4;1])
      [[Q2Qc 0; Q2Qc 0]; [Q2Qc (1 # 2); Q2Qc 0]] (identity 2).

Example pot_state_inv : linv 2 pot_state /\ (1 <= l_k pot_state <= l_kmax pot_state)%nat.
Proof.
  split; [|cbn; lia]. constructor.
  - unfold wfstate, square, squareZ. cbn. repeat split; repeat constructor.
  - constructor; cbn [l_kmax pot_state].
    + intros i p Hi. destruct i as [|[|i]]; [| |exfalso; lia];
        destruct p as [|[|[|p]]]; apply Qc_is_canon; vm_compute; reflexivity.
    + intros i j Hi Hj Hne.
      destruct i as [|[|i]]; [| |exfalso; lia]; (destruct j as [|[|j]]; [| |exfalso; lia]);
        try (exfalso; apply Hne; reflexivity); apply Qc_is_canon; vm_compute; reflexivity.
    + intros i Hi. destruct i as [|[|i]]; [| |exfalso; lia]; apply Qc_is_canon; vm_compute; reflexivity.
  - cbn [l_kmax pot_state]. intros i Hi. destruct i as [|[|i]]; [| |exfalso; lia]; vm_compute; reflexivity.
  - apply (right_inverse_independent (qmat [[2;0];[1;1]]) [[Q2Qc (1 # 2); Q2Qc 0]; [Q2Qc (-1 # 2); Q2Qc 1]]).
    ri_cases.
Qed.

Example pot_state_swaps :
  lovasz_fails arithQ pot_state = true /\
  exists s', swap arithQ 2 pot_state (l_k pot_state - 1) = Done s' /\
             this (gramdet pot_state 0) = 4%Q /\ this (gramdet s' 0) = 2%Q.
Proof.
  split; [vm_compute; reflexivity|]. eexists. split; [vm_compute; reflexivity|].
  split; vm_compute; reflexivity.
Qed.

(** [P] the integrality behind termination: if (b*, mu, N) are Gram-Schmidt data of the rows 0..i of a
    matrix with integer entries, then N_0 ... N_i is an integer (the determinant of the Gram matrix of these
    rows; proved with MathComp's determinants). *)
Theorem gs_prod_is_int : forall (n i : nat) (Bf Sf mu : nat -> nat -> Qc) (N : nat -> Qc),
  (i < n)%nat ->
  (forall a p, (a <= i)%nat -> (p < n)%nat ->
     Bf a p = Qcplus (Sf a p) (qsum a (fun j => Qcmult (mu a j) (Sf j p)))) ->
  (forall a b, (a <= i)%nat -> (b <= i)%nat -> a <> b ->
     qsum n (fun p => Qcmult (Sf a p) (Sf b p)) = Q2Qc 0) ->
  (forall a, (a <= i)%nat -> N a = qsum n (fun p => Qcmult (Sf a p) (Sf a p))) ->
  (forall a p, (a <= i)%nat -> (p < n)%nat -> exists z, Bf a p = Qc_of_Z z) ->
  exists z : Z, qprod (S i) N = Qc_of_Z z.
Proof. exact LllExitDet.gs_prod_is_int. Qed.

(** [P] (exact arithmetic) in terms of the current basis only ([gd B i] = |b*_0|^2 ... |b*_i|^2 by the textbook
    formulas, for ALL rows, reached or not): after a failed Lovasz test SWAP(k-1) makes [gd (k-1)] strictly
    smaller, leaves the other [gd i] unchanged, and all stay positive. *)
Theorem swap_gd : forall (n : nat) (s s' : lstate),
  linv n s -> (1 <= l_k s <= l_kmax s)%nat ->
  lovasz_fails arithQ s = true -> swap arithQ n s (l_k s - 1) = Done s' ->
  Qclt (gd (l_basis s') (l_k s - 1)) (gd (l_basis s) (l_k s - 1)) /\
  (forall i, i <> (l_k s - 1)%nat -> (i < n)%nat -> gd (l_basis s') i = gd (l_basis s) i) /\
  (forall i, (i < n)%nat -> Qclt (Q2Qc 0) (gd (l_basis s') i)).
Proof. exact LllExitFull.swap_gd. Qed.

(** [P] (exact arithmetic) TERMINATION: for every square rational basis with at least two rows and linearly
    independent rows there is a fuel from which on the run returns. (Potential: with c a common denominator
    of the entries, prod_i c^(2(i+1)) gd_i is a positive integer, unchanged by step 2 and RED, strictly
    smaller after each SWAP.)  NOT proved: that the particular [lll_fuel] of [lll_exact] is such a fuel. *)
Theorem lll_exact_terminates : forall B : list (list Qc),
  (2 <= length B)%nat -> Forall (fun r => length r = length B) B -> rows_independent B ->
  exists fuel0, forall fuel, (fuel0 <= fuel)%nat -> exists B' H, lll arithQ fuel B = Done (B', H).
Proof. exact LllExitTerm.lll_exact_terminates. Qed.

(** [P] (exact arithmetic) total correctness from that fuel on: the run returns (B', H) with H unimodular
    (see [lll_H_unimodular] for the inverse), B' = H B and B' LLL-reduced with parameter 3/4. *)
Theorem lll_exact_total : forall B : list (list Qc),
  (2 <= length B)%nat -> Forall (fun r => length r = length B) B -> rows_independent B ->
  exists fuel0, forall fuel, (fuel0 <= fuel)%nat ->
    exists B' H, lll arithQ fuel B = Done (B', H) /\
      elem_reachable (length B) H /\
      B' = qmmul (length B) (injM H) B /\
      lll_reduced_prop Qc_34 B'.
Proof. exact LllExitTerm.lll_exact_total. Qed.

(** Non-vacuity: the theorem applied to the 3x3 basis (hypotheses: [lll_ex3_hyps]). *)
Example lll_ex3_terminates :
  exists fuel0, forall fuel, (fuel0 <= fuel)%nat ->
    exists B' H, lll arithQ fuel (qmat [[1;1;1];[-1;0;2];[3;5;6]]) = Done (B', H).
Proof.
  destruct lll_ex3_hyps as [Sq Ind].
  exact (lll_exact_terminates (qmat [[1;1;1];[-1;0;2];[3;5;6]]) ltac:(vm_compute; lia) Sq Ind).
Qed.

(** * Second wave: [Cholesky::find] and the enumeration on a Gram matrix (exact arithmetic) *)

(** [P] (exact arithmetic) what [cholesky_find] computes, for EVERY square matrix (no hypothesis on the
    pivots: x/0 = 0 on both sides): with A^(0) = Q, A^(i+1)_kl = A^(i)_kl - A^(i)_ik A^(i)_il / A^(i)_ii
    ([schur Q i k l], the symmetric elimination / Schur complements), the result q has
    q_aa = A^(a)_aa, q_ab = A^(a)_ab / A^(a)_aa for a < b and 0 below the diagonal. *)
Theorem cholesky_find_entries : forall Q : list (list Qc), square (length Q) Q ->
  exists q, cholesky_find arithQ Q = Done q /\ square (length Q) q /\
    (forall a, (a < length Q)%nat -> get2 arithQ q a a = schur Q a a a) /\
    (forall a b, (a < b < length Q)%nat -> get2 arithQ q a b = Qcdiv (schur Q a a b) (schur Q a a a)) /\
    (forall a b, (b < a < length Q)%nat -> get2 arithQ q a b = Q2Qc 0).
Proof. exact CholLoops.cholesky_find_entries. Qed.

(** [P] positive definite over the rationals ([posdef]: x^T Q x > 0 for every rational x <> 0) is the same
    as "all pivots A^(i)_ii of the elimination are positive" ([pivots_pos]), for a symmetric matrix. *)
Theorem posdef_pivots_pos : forall Q : list (list Qc),
  square (length Q) Q -> msym (length Q) Q -> posdef (length Q) Q -> pivots_pos Q.
Proof. exact CholFind.posdef_pivots_pos. Qed.

Theorem pivots_pos_posdef : forall Q : list (list Qc), msym (length Q) Q -> pivots_pos Q -> posdef (length Q) Q.
Proof. exact CholFind.pivots_pos_posdef. Qed.

(** [P] (exact arithmetic) [cholesky_find_spec]: for a symmetric positive-definite rational Q the routine
    returns a decomposition q with positive diagonal such that [find_value q x] is x^T Q x
    ([qform]: sum_i sum_j x_i Q_ij x_j) for every integer vector x of the right length
    (Cohen 2.7.5: Q(x) = sum_i q_ii (x_i + sum_{j>i} q_ij x_j)^2). *)
Theorem cholesky_find_spec : forall Q : list (list Qc),
  square (length Q) Q -> msym (length Q) Q -> posdef (length Q) Q ->
  exists q, cholesky_find arithQ Q = Done q /\ length q = length Q /\ posdiag q /\
    forall x : list Z, length x = length Q ->
      find_value arithQ q (map (fofZ arithQ) x) = Done (qform (length Q) Q (fun i => Qc_of_Z (nth i x 0))).
Proof. exact CholFind.cholesky_find_spec. Qed.

(** the same under the hypothesis "all pivots positive", with the pivots and [qvalue] made explicit *)
Theorem cholesky_find_spec_pivots : forall Q : list (list Qc),
  square (length Q) Q -> msym (length Q) Q -> pivots_pos Q ->
  exists q, cholesky_find arithQ Q = Done q /\ length q = length Q /\ posdiag q /\
    (forall i, (i < length Q)%nat -> gq q i i = schur Q i i i) /\
    forall x : list Z, length x = length Q ->
      qvalue q x = qform (length Q) Q (fun i => Qc_of_Z (nth i x 0)) /\
      find_value arithQ q (map (fofZ arithQ) x) = Done (qform (length Q) Q (fun i => Qc_of_Z (nth i x 0))).
Proof. exact CholFind.cholesky_find_spec_pivots. Qed.

(** [P] (exact arithmetic) [short_vectors_gram_spec]: for a symmetric positive-definite Gram matrix Q and a
    bound c, the enumeration on the decomposition of Q returns, without repetition, pairs (v, y) with y a
    non-zero integer vector, v = y^T Q y <= c, and for every non-zero integer y with y^T Q y <= c exactly
    one of y, -y.  (If c < 0 the call panics, [short_vectors_complete].) *)
Theorem short_vectors_gram_spec : forall (Q : list (list Qc)) (c : Qc) (q : list (list Qc)) (l : list (Qc * list Z)),
  square (length Q) Q -> msym (length Q) Q -> posdef (length Q) Q ->
  cholesky_find arithQ Q = Done q -> find_short_vectors arithQ q c = Done l ->
  let val := fun y : list Z => qform (length Q) Q (fun i => Qc_of_Z (nth i y 0)) in
  NoDup (map snd l) /\
  (forall v y, In (v, y) l -> length y = length Q /\ forallb (Z.eqb 0) y = false /\ v = val y /\ Qcle v c) /\
  (forall y, length y = length Q -> forallb (Z.eqb 0) y = false -> Qcle (val y) c ->
     (In y (map snd l) /\ ~ In (vneg y) (map snd l)) \/ (~ In y (map snd l) /\ In (vneg y) (map snd l))).
Proof. exact CholFind.short_vectors_gram_spec. Qed.

(** Non-vacuity: the Gram matrix [[2;1;0];[1;2;1];[0;1;2]] of the root lattice A3 is square, symmetric,
    positive definite; its decomposition has the pivots 2, 3/2, 4/3; with c = 2 the enumeration returns the
    6 = 12/2 minimal vectors, each with value 2. *)
Example gram_ex3_hyps :
  square (length gramA3) gramA3 /\ msym (length gramA3) gramA3 /\ posdef (length gramA3) gramA3.
Proof. exact (conj gramA3_square (conj gramA3_msym gramA3_posdef)). Qed.

Example gram_ex3_run :
  omap (fun q => (map (map this) q,
                  omap (map (fun vx => (this (fst vx), snd vx))) (find_short_vectors_exact q (Qc_of_Z 2))))
       (cholesky_find_exact gramA3)
  = Done ([[2 # 1; 1 # 2; 0 # 1]; [0 # 1; 3 # 2; 2 # 3]; [0 # 1; 0 # 1; 4 # 3]]%Q,
          Done [((2 # 1)%Q, [0; 0; -1]); ((2 # 1)%Q, [-1; 1; -1]); ((2 # 1)%Q, [0; 1; -1]);
                ((2 # 1)%Q, [0; -1; 0]); ((2 # 1)%Q, [1; -1; 0]); ((2 # 1)%Q, [-1; 0; 0])]).
Proof. vm_compute. reflexivity. Qed.
