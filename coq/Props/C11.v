(** C11: Hensel lifting (first version: executable-model milestone). *)
From RNT.Model Require Import Base Poly PolyModP Hensel.
From RNT.Refine Require Import PolyModStart.
Open Scope Z_scope.

(** [P] for e = 1 the factors are returned unchanged. *)
Theorem lift_factorization_e1 : forall p c fs, lift_factorization p 1 c fs = Done fs.
Proof. exact lift_factorization_e1. Qed.
