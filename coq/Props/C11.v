(** C11: Hensel lifting preserves the factorisation modulo p^e.

    Vocabulary (coq/Refine): [peqmod m a b] = "poly_mod (a - b) m is the zero polynomial"
    (coefficientwise congruence modulo m); [lmonic a] = last coefficient 1; [canonical a] = no
    trailing zero; [in_range m a] = all coefficients in [0, m); [goodlc p a] = a is 0 or its
    leading coefficient is not divisible by p; [lprod fs] = product of the list. *)
From Coq Require Import ZArith List Lia Znumtheory.
From RNT.Model Require Import Base Poly PolyModP Hensel.
From RNT.Refine Require Import PolyModPArith PolyZmod MonicZ PolyModPGcd HenselProofs C11Lists PolyModStart.
Import ListNotations.
Open Scope Z_scope.

(** [P] One step (Cohen 3.5.5), any modulus p > 1 dividing q (p need not be prime). *)
Theorem hensel_step_spec : forall p q c a b u v a1 b1 qr,
  1 < p -> 0 < q -> (p | q) -> lmonic a ->
  peqmod q c (pmul opsZ a b) ->
  peqmod p (padd opsZ (pmul opsZ a u) (pmul opsZ b v)) [1] ->
  hensel_lift p q c a b u v = Done (a1, b1, qr) ->
  qr = q * p /\
  peqmod qr c (pmul opsZ a1 b1) /\ peqmod q a1 a /\ peqmod q b1 b /\
  lmonic a1 /\ length a1 = length a /\
  canonical a1 /\ in_range qr a1 /\ canonical b1 /\ in_range qr b1.
Proof. exact hensel_step_spec. Qed.

(** [P] ... and under these preconditions the step neither panics nor runs out of fuel. *)
Theorem hensel_step_total : forall p q c a b u v,
  1 < p -> 0 < q -> (p | q) -> lmonic a ->
  exists a1 b1 qr, hensel_lift p q c a b u v = Done (a1, b1, qr).
Proof. exact hensel_step_total. Qed.

Example hensel_step_nonvacuous :
  1 < 9 /\ (9 | 9) /\ lmonic [-3; 1] /\
  peqmod 9 [3; 2; 1] (pmul opsZ [-3; 1] [-4; 1]) /\
  peqmod 9 (padd opsZ (pmul opsZ [-3; 1] [1]) (pmul opsZ [-4; 1] [-1])) [1] /\
  hensel_lift 9 9 [3; 2; 1] [-3; 1] [-4; 1] [1] [-1] = Done ([60; 1], [23; 1], 81).
Proof. repeat split; try reflexivity; try lia. Qed.

(** [P] Bezout witness: whenever the routine returns (the gcd it found is a unit), a u + b v = 1 mod p. *)
Theorem coprime_witness_spec : forall p a b u v,
  prime p -> goodlc p a -> goodlc p b ->
  poly_coprime_witness a b p = Done (u, v) ->
  peqmod p (padd opsZ (pmul opsZ a u) (pmul opsZ b v)) [1] /\
  canonical u /\ in_range p u /\ canonical v /\ in_range p v.
Proof. exact coprime_witness_list_spec. Qed.

Example coprime_witness_nonvacuous :
  prime 3 /\ goodlc 3 [1; 0; 1] /\ goodlc 3 [2; 1] /\
  poly_coprime_witness [1; 0; 1] [2; 1] 3 = Done ([2], [1; 1]).
Proof.
  split; [exact prime_3|]. split; [|split; [|reflexivity]];
    intros _ D; cbn in D; apply Z.divide_1_r in D; lia.
Qed.

(** [P] The whole lift (partial correctness: [lift_factorization] returns whenever all its
    Bezout witnesses exist, which is the case for pairwise coprime factors). [g_i] monic,
    [deg g_i = deg f_i], [g_i = f_i mod p], coefficients in [0, p^e), and
    [lc(c) * prod g_i = c mod p^e], i.e. [prod g_i = c * lc(c)^(-1)]. *)
Theorem lift_factorization_spec : forall p e c factors gs,
  prime p -> 1 <= e -> ~ (p | last c 0) ->
  factors <> [] -> Forall lmonic factors ->
  peqmod p c (pmul opsZ (from_mono opsZ (last c 0)) (lprod factors)) ->
  lift_factorization p e c factors = Done gs ->
  Forall2 (fun g f => peqmod p g f /\ lmonic g /\ length g = length f) gs factors /\
  peqmod (p ^ e) c (pmul opsZ (from_mono opsZ (last c 0)) (lprod gs)) /\
  (forall inv, (last c 0 * inv) mod p ^ e = 1 -> peqmod (p ^ e) (lprod gs) (poly_mul c inv)) /\
  (2 <= e -> Forall (fun g => canonical g /\ in_range (p ^ e) g) gs) /\
  (e = 1 -> gs = factors).
Proof. exact lift_factorization_list_spec. Qed.

Example lift_factorization_nonvacuous :
  prime 3 /\ ~ (3 | last [-5; 0; 5] 0) /\ Forall lmonic [[1; 1]; [2; 1]] /\
  peqmod 3 [-5; 0; 5] (pmul opsZ (from_mono opsZ (last [-5; 0; 5] 0)) (lprod [[1; 1]; [2; 1]])) /\
  lift_factorization 3 4 [-5; 0; 5] [[1; 1]; [2; 1]] = Done [[1; 1]; [80; 1]].
Proof.
  split; [exact prime_3|]. split; [intros [k Hk]; cbn in Hk; lia|].
  split; [repeat constructor|]. split; vm_compute; reflexivity.
Qed.

(** [P] ... and it does return (no panic, no fuel exhaustion) when the monic factors are pairwise
    coprime modulo p ([lcoprime p a b] = "a s + b t = 1 mod p for some s, t"), which is the
    case for distinct monic irreducibles. Together with [lift_factorization_spec]: total correctness
    of the lift under the stated preconditions. *)
Theorem lift_factorization_total : forall p e c factors,
  prime p -> ~ (p | last c 0) ->
  factors <> [] -> Forall lmonic factors ->
  (forall i j : nat, (i < j)%nat -> (j < length factors)%nat ->
     lcoprime p (nth i factors []) (nth j factors [])) ->
  peqmod p c (pmul opsZ (from_mono opsZ (last c 0)) (lprod factors)) ->
  exists gs, lift_factorization p e c factors = Done gs.
Proof. exact lift_factorization_list_total. Qed.

(** [P] the Bezout witness exists for coprime arguments. *)
Theorem coprime_witness_total : forall p a b,
  prime p -> goodlc p a -> goodlc p b -> canonical a -> canonical b -> a <> [] \/ b <> [] ->
  lcoprime p a b -> exists u v, poly_coprime_witness a b p = Done (u, v).
Proof. exact coprime_witness_list_total. Qed.

Example lcoprime_nonvacuous : lcoprime 3 [1; 1] [2; 1].
Proof. exists [2], [1]. vm_compute. reflexivity. Qed.

(** [P] for e = 1 the factors are returned unchanged (no precondition at all). *)
Theorem lift_factorization_e1 : forall p c fs, lift_factorization p 1 c fs = Done fs.
Proof. exact lift_factorization_e1. Qed.
