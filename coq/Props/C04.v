(** C04: resultant = Sylvester determinant (statements only; proofs in Refine/ResProofs*.v).
    [resultant m f g : bool * outcome Z] pairs the outcome with the model's exactness flag
    (true iff every truncating BigInt division of the run had remainder zero). *)
From RNT.Model Require Import Base Poly Resultant.
From RNT.Refine Require Import ResProofs ResProofs2 ResProofs3.
From Coq Require Import QArith Qcanon.
Open Scope Z_scope.

(** [P] a zero argument gives 0, flag true, in either mode. *)
Theorem resultant_zero_l : forall m g, resultant m [] g = (true, Done 0).
Proof. exact ResProofs.resultant_zero_l. Qed.
Theorem resultant_zero_r : forall m f, resultant m f [] = (true, Done 0).
Proof. exact ResProofs.resultant_zero_r. Qed.
Theorem resultant_rational_zero_l : forall m g, resultant_rational m [] g = Done (Q2Qc 0).
Proof. exact ResProofs.resultant_rational_zero_l. Qed.
Theorem resultant_rational_zero_r : forall m f, resultant_rational m f [] = Done (Q2Qc 0).
Proof. exact ResProofs.resultant_rational_zero_r. Qed.

(** [P] two constants give 1 without panic, in mode Checked as well (defect D2 is repaired in /repo). *)
Theorem resultant_consts : forall m c d, resultant m [c] [d] = (true, Done 1).
Proof. exact ResProofs.resultant_consts. Qed.
Theorem resultant_rational_consts : forall m c d, resultant_rational m [c] [d] = Done (Q2Qc 1).
Proof. exact ResProofs.resultant_rational_consts. Qed.
Example consts_checked : resultant Checked [3] [5] = (true, Done 1). Proof. reflexivity. Qed.

(** [P] a polynomial of degree n >= 1 against a constant c, in either order: c^n, flag true, no panic. *)
Theorem resultant_const_r : forall m f c,
  (2 <= length f)%nat -> len_ok f = true -> resultant m f [c] = (true, Done (c ^ pdeg f)).
Proof. exact ResProofs.resultant_const_r. Qed.
Theorem resultant_const_l : forall m c g,
  (2 <= length g)%nat -> len_ok g = true -> resultant m [c] g = (true, Done (c ^ pdeg g)).
Proof. exact ResProofs.resultant_const_l. Qed.
Theorem resultant_rational_const_r : forall m f c,
  f <> [] -> resultant_rational m f [c] = Done (qcpow c (pdeg f)).
Proof. exact ResProofs.resultant_rational_const_r. Qed.
Example const_r_ex : resultant Checked [1; 2; 3] [-2] = (true, Done 4) /\ len_ok [1; 2; 3] = true.
Proof. split; reflexivity. Qed.
Example const_l_ex : resultant Checked [-2] [1; 2; 3; 4] = (true, Done (-8)). Proof. reflexivity. Qed.

(** [P] the fuel supplied by the entry points suffices for every pair of coefficient lists. *)
Theorem resultant_no_outoffuel : forall m f g, snd (resultant m f g) <> OutOfFuel.
Proof. exact ResProofs.resultant_no_outoffuel. Qed.
Theorem resultant_rational_no_outoffuel : forall m a b, resultant_rational m a b <> OutOfFuel.
Proof. exact ResProofs.resultant_rational_no_outoffuel. Qed.

(** [P] on canonical inputs (no trailing zero, as [Polynomial::from_raw] builds them; lengths fit a
    usize) [resultant_rational] returns a value: no assert failure, no usize underflow, in either mode. *)
Theorem resultant_rational_total : forall m a b,
  qcanonb a = true -> qcanonb b = true -> len_ok a = true -> len_ok b = true ->
  exists v, resultant_rational m a b = Done v.
Proof. exact ResProofs3.resultant_rational_total. Qed.
Example rational_total_ex :
  let a := [Q2Qc (1 # 2); Q2Qc 3; Q2Qc (5 # 7)] in let b := [Q2Qc 2; Q2Qc (-1 # 3)] in
  qcanonb a = true /\ qcanonb b = true /\ len_ok a = true /\ len_ok b = true.
Proof. repeat split; reflexivity. Qed.

(** [C] for canonical inputs: if the exactness flag of the run is true, the run returned a value
    (no division by zero, no failed debug assertion, no usize underflow, enough fuel).
    Full statement (not proved, sub-resultant structure theorem): the flag is always true, hence
    [resultant] never panics on canonical inputs. *)
Theorem resultant_flag_no_panic_partial : forall m f g o,
  canonb f = true -> canonb g = true -> len_ok f = true -> len_ok g = true ->
  resultant m f g = (true, o) -> exists v, o = Done v.
Proof. exact ResProofs2.resultant_flag_no_panic. Qed.
Example flag_ex :
  let f := [5; 0; 2; 0; 6; 9] in let g := [6; 6; 6; 1; 7] in
  canonb f = true /\ canonb g = true /\ resultant Checked f g = (true, Done 335159672).
Proof. repeat split; vm_compute; reflexivity. Qed.
Example flag_ex2 : resultant Checked [2; 5; 2] [2; 0; 1] = (true, Done 54). Proof. vm_compute. reflexivity. Qed.

(** ** Specification level (MathComp [resultant p q := \det (Sylvester_mx p q)], mxpoly.v)

    MathComp lays the Sylvester matrix out with increasing degrees; reversing rows and columns shows
    that the classical (highest degree first) Sylvester determinant Res(f, g) of the property text is
    [resultant g f] = [\det (Sylvester_mx g f)]. The next theorem is the witness of this convention. *)
From mathcomp Require Import all_ssreflect ssralg poly polydiv matrix mxpoly.
From mathcomp Require Import ssrZ.
From RNT.Refine Require Import QcRing PolyRefine ResSylvester ResEuclid ResQ ResPRS ResInt.
Import GRing.Theory.
Local Open Scope ring_scope.

Theorem resultant_linear_convention : forall (R : comRingType) (a b : R),
  mxpoly.resultant ('X - a%:P) ('X - b%:P) = (b - a)%R.
Proof. exact ResEuclid.resultant_linear_convention. Qed.

(** [P] [resultant_rational_spec]: for all canonical non-zero inputs, in either mode, the value returned
    by the model of [resultant_rational] is the determinant of the Sylvester matrix. *)
Theorem resultant_rational_spec : forall m (a b : seq Qc) v,
  qcanonb a = true -> qcanonb b = true -> len_ok a = true -> len_ok b = true ->
  a <> [::] -> b <> [::] ->
  resultant_rational m a b = Done v ->
  v = (\det (Sylvester_mx (Poly b) (Poly a)))%R.
Proof. exact ResQ.resultant_rational_spec. Qed.
Example rational_spec_ex :
  let a := [Q2Qc (1 # 2); Q2Qc 3; Q2Qc (5 # 7)] in let b := [Q2Qc 2; Q2Qc (-1 # 3)] in
  exists v, resultant_rational Checked a b = Done v /\ Qeq_bool v (Q2Qc (619 # 126)) = true.
Proof. eexists; split; vm_compute; reflexivity. Qed.

(** [P] [res_recurrence]: the Euclid recurrence of the resultant over a field, proved from the Sylvester
    matrix (classical form: Res(A,B) = (-1)^(dA dB) lc(B)^(dA - dR) Res(B, R), R = A mod B). *)
Theorem res_recurrence : forall (F : fieldType) (A B : {poly F}),
  A != 0 -> B != 0 -> A %% B != 0 ->
  mxpoly.resultant B A =
  ((-1) ^+ ((size A).-1 * (size B).-1) * lead_coef B ^+ ((size A).-1 - (size (A %% B)).-1)
   * mxpoly.resultant (A %% B) B)%R.
Proof. exact ResEuclid.res_recurrence. Qed.

(** [P] the reduction steps hold over any commutative ring, for any decomposition q = Q p + r. *)
Theorem resultant_redr : forall (R : comRingType) (p q Q r : {poly R}), q = (Q * p + r)%R ->
  (((size p).-1 + size Q).-1 <= (size q).-1)%N -> ((size r).-1 <= (size q).-1)%N ->
  mxpoly.resultant p q =
  (((-1) ^+ (size p).-1 * lead_coef p) ^+ ((size q).-1 - (size r).-1) * mxpoly.resultant p r)%R.
Proof. exact ResSylvester.resultant_redr. Qed.
Theorem resultant_redl : forall (R : comRingType) (p q Q r : {poly R}), p = (Q * q + r)%R ->
  (((size q).-1 + size Q).-1 <= (size p).-1)%N -> ((size r).-1 <= (size p).-1)%N ->
  mxpoly.resultant p q = (lead_coef q ^+ ((size p).-1 - (size r).-1) * mxpoly.resultant r q)%R.
Proof. exact ResSylvester.resultant_redl. Qed.

(** [P] symmetry over a field, value against constants, scaling law (spec level). *)
Theorem resultant_swap : forall (F : fieldType) (A B : {poly F}), A != 0 -> B != 0 ->
  mxpoly.resultant A B = ((-1) ^+ ((size A).-1 * (size B).-1) * mxpoly.resultant B A)%R.
Proof. exact ResEuclid.resultant_swap. Qed.
Theorem resultant_constr : forall (R : comRingType) (p : {poly R}) (c : R),
  mxpoly.resultant p c%:P = (c ^+ (size p).-1)%R.
Proof. exact ResEuclid.resultant_constr. Qed.
Theorem resultant_constl : forall (R : comRingType) (c : R) (q : {poly R}),
  mxpoly.resultant c%:P q = (c ^+ (size q).-1)%R.
Proof. exact ResEuclid.resultant_constl. Qed.
Theorem resultant_scale : forall (R : idomainType) (s t : R) (p q : {poly R}), s != 0 -> t != 0 ->
  mxpoly.resultant (s *: p) (t *: q) = (s ^+ (size q).-1 * t ^+ (size p).-1 * mxpoly.resultant p q)%R.
Proof. exact ResEuclid.resultant_scale. Qed.

(** [C] [resultant_int_partial]: the integer sub-resultant routine. For canonical non-zero inputs, if the
    run returns [v] with the model's exactness flag true, then [v] is the Sylvester determinant
    (proved through the pseudo-division step identity [prs_step] and Cohen's bookkeeping invariant
    Res(f0,g0) * b^(deg f - 1) * a^(deg g) = s * Res(f, g)).
    Full statement (not proved): the flag is always true (sub-resultant structure theorem), so that
    [resultant f g = Done (det Sylvester)] for all canonical non-zero inputs. *)
Theorem resultant_int_partial : forall m (f g : seq Z) v,
  canonb f = true -> canonb g = true -> len_ok f = true -> len_ok g = true ->
  f <> [::] -> g <> [::] ->
  Resultant.resultant m f g = (true, Done v) ->
  v = \det (Sylvester_mx (Poly g) (Poly f)).
Proof. exact ResInt.resultant_int_partial. Qed.
Example int_partial_ex :
  let f := [:: 5; 0; 2; 0; 6; 9]%Z in let g := [:: 6; 6; 6; 1; 7]%Z in
  canonb f = true /\ canonb g = true /\ len_ok f = true /\ len_ok g = true /\
  Resultant.resultant Checked f g = (true, Done 335159672%Z).
Proof. repeat split; vm_compute; reflexivity. Qed.

(** [P] one pseudo-division step of the sub-resultant sequence at the level of determinants, and
    symmetry of the resultant over an integral domain. *)
Theorem prs_step : forall (R : idomainType) (A B Q P H : {poly R}) (phi : R),
  A != 0 -> B != 0 -> (size B <= size A)%N ->
  let c := lead_coef B in let k := ((size A).-1 - (size B).-1).+1 in
  c ^+ k *: A = Q * B + P -> (size P < size B)%N -> P = phi *: H -> phi != 0 -> H != 0 ->
  (c ^+ k) ^+ (size B).-1 * mxpoly.resultant B A =
  ((-1) ^+ (size B).-1 * c) ^+ ((size A).-1 - (size H).-1) * phi ^+ (size B).-1 *
  ((-1) ^+ ((size B).-1 * (size H).-1) * mxpoly.resultant H B).
Proof. exact ResPRS.prs_step. Qed.
Theorem resultant_swap_idomain : forall (R : idomainType) (A B : {poly R}), A != 0 -> B != 0 ->
  mxpoly.resultant A B = (-1) ^+ ((size A).-1 * (size B).-1) * mxpoly.resultant B A.
Proof. exact ResPRS.resultant_swap_idomain. Qed.

(** [C] "the rational-coefficient variant returns the same value on the same inputs": for canonical non-zero
    integer inputs, whenever the integer run returns [v] with exactness flag true, the rational routine
    returns (the image of) [v] - both are the Sylvester determinant. [Qc_ofZ z = Q2Qc (inject_Z z)]. *)
From RNT.Refine Require Import ResAgree.
Theorem resultant_rational_agrees_partial : forall m (f g : seq Z) v,
  canonb f = true -> canonb g = true -> len_ok f = true -> len_ok g = true ->
  f <> [::] -> g <> [::] ->
  Resultant.resultant m f g = (true, Done v) ->
  resultant_rational m (List.map Qc_ofZ f) (List.map Qc_ofZ g) = Done (Qc_ofZ v).
Proof. exact ResAgree.resultant_rational_agrees_partial. Qed.

(** ** Second wave: the sub-resultant structure theorem (SubresDet.v, SubresInv.v, SubresFlag.v)

    The polynomial subresultants S_j of the initial pair are defined as determinants over {poly Z}
    ([SubresDet.SR]); one pseudo-division step transforms them by explicit factors ([SubresDet.SR_step]);
    the loop invariant  b^(deg F - j - 1) a^(deg G - j) S_j(A0, B0) = +- S_j(F, G)  for all j <= deg G
    ([SubresInv.sinv]) is preserved by every step of the model and makes every flagged division exact. *)
From RNT.Refine Require Import SubresFlag SubresSpec.

(** [P] [resultant_flag_true]: for all canonical inputs whose lengths fit a usize, in either mode, every
    truncating BigInt division of the run of [resultant] has remainder zero. *)
Theorem resultant_flag_true : forall m (f g : seq Z),
  canonb f = true -> canonb g = true -> len_ok f = true -> len_ok g = true ->
  fst (Resultant.resultant m f g) = true.
Proof. exact SubresFlag.resultant_flag_true. Qed.

(** [P] [resultant_total]: hence [resultant] never panics on canonical inputs (no division by zero, no failed
    debug assertion, no usize underflow), in either mode. *)
Theorem resultant_total : forall m (f g : seq Z),
  canonb f = true -> canonb g = true -> len_ok f = true -> len_ok g = true ->
  exists v, Resultant.resultant m f g = (true, Done v).
Proof. exact SubresSpec.resultant_total. Qed.

(** [P] [resultant_int_spec]: for all canonical non-zero inputs, in either mode, the integer sub-resultant
    routine returns the determinant of the Sylvester matrix (no flag hypothesis). *)
Theorem resultant_int_spec : forall m (f g : seq Z),
  canonb f = true -> canonb g = true -> len_ok f = true -> len_ok g = true ->
  f <> [::] -> g <> [::] ->
  Resultant.resultant m f g = (true, Done (\det (Sylvester_mx (Poly g) (Poly f)))).
Proof. exact SubresSpec.resultant_int_spec. Qed.
Example int_spec_ex :
  let f := [:: 5; 0; 0; 0; 6; 9]%Z in let g := [:: 6; 0; 1]%Z in   (* degree gaps 3 and 2 *)
  canonb f = true /\ canonb g = true /\ len_ok f = true /\ len_ok g = true /\
  Resultant.resultant Checked f g = (true, Done 678697%Z).
Proof. repeat split; vm_compute; reflexivity. Qed.

(** [P] "the rational-coefficient variant returns the same value on the same inputs", unconditionally. *)
Theorem resultant_rational_agrees : forall m (f g : seq Z),
  canonb f = true -> canonb g = true -> len_ok f = true -> len_ok g = true ->
  f <> [::] -> g <> [::] ->
  exists v, Resultant.resultant m f g = (true, Done v) /\
            resultant_rational m (List.map Qc_ofZ f) (List.map Qc_ofZ g) = Done (Qc_ofZ v).
Proof. exact SubresSpec.resultant_rational_agrees. Qed.

(** [P] one division step on the polynomial subresultants (any commutative ring, signs not tracked):
    if a A = T B + C then a^m S_j(A, B) = +- lc(B)^k S_j(B, C) for the nominal row counts m, n'+k. *)
Theorem SR_step : forall (R : comRingType) (j m n' k : nat) (a : R) (A B T C : {poly R}),
  a *: A = T * B + C -> (size T + m <= (n' + k).+1)%N -> (0 < m + n')%N ->
  (size C <= (j + n').+1)%N -> (size B <= (j + m).+1)%N ->
  exists e : nat,
    (a ^+ m)%:P * SubresDet.SR j m (n' + k) A B = (-1) ^+ e * (B`_(j + m) ^+ k)%:P * SubresDet.SR j n' m B C.
Proof. exact SubresDet.SR_step. Qed.

(** [P] scaling law on the outputs of the integer routine, for all canonical non-zero inputs and s, t <> 0:
    Res(s f, t g) = s^deg g * t^deg f * Res(f, g). *)
Theorem resultant_scale_model : forall m (f g : seq Z) (s t : Z),
  canonb f = true -> canonb g = true -> len_ok f = true -> len_ok g = true ->
  f <> [::] -> g <> [::] -> s != 0 -> t != 0 ->
  exists v, Resultant.resultant m f g = (true, Done v) /\
    Resultant.resultant m (List.map (Z.mul s) f) (List.map (Z.mul t) g) =
      (true, Done (s ^+ (size g).-1 * t ^+ (size f).-1 * v)).
Proof. exact SubresSpec.resultant_scale_model. Qed.
Example scale_model_ex :
  let f := [:: 2; 5; 2]%Z in let g := [:: 2; 0; 1]%Z in
  Resultant.resultant Checked f g = (true, Done 54%Z) /\
  Resultant.resultant Checked (List.map (Z.mul (-3)) f) (List.map (Z.mul 2) g) = (true, Done (9 * 4 * 54)%Z).
Proof. split; vm_compute; reflexivity. Qed.

(** ** Fifth wave: the scaling law of the RATIONAL routine as a statement about two runs of the model. *)
From RNT.Refine Require Import W5ResScale.

(** [P] [resultant_rational_scale_model]: for canonical non-zero f, g over Q and non-zero rationals s, t, in either
    mode: both runs return, and resultant_rational (s f) (t g) = s^deg g * t^deg f * resultant_rational f g. *)
Theorem resultant_rational_scale_model : forall m (f g : seq Qc) (s t : Qc),
  qcanonb f = true -> qcanonb g = true -> len_ok f = true -> len_ok g = true ->
  f <> [::] -> g <> [::] -> s != 0 -> t != 0 ->
  exists v, resultant_rational m f g = Done v /\
    resultant_rational m (List.map (Qcmult s) f) (List.map (Qcmult t) g) =
      Done (s ^+ (size g).-1 * t ^+ (size f).-1 * v).
Proof. exact W5ResScale.resultant_rational_scale_model. Qed.
Example rational_scale_ex :
  let f := [Q2Qc (1 # 2); Q2Qc 3; Q2Qc (5 # 7)] in let g := [Q2Qc 2; Q2Qc (-1 # 3)] in
  let s := Q2Qc (-3) in let t := Q2Qc (2 # 5) in
  exists v w, resultant_rational Checked f g = Done v /\
    resultant_rational Checked (List.map (Qcmult s) f) (List.map (Qcmult t) g) = Done w /\
    Qeq_bool w (Qcmult (Qcmult s (Qcmult t t)) v) = true /\ Qeq_bool v (Q2Qc (619 # 126)) = true.
Proof. do 2 eexists; split; [vm_compute; reflexivity | split; [vm_compute; reflexivity | split; vm_compute; reflexivity]]. Qed.
