(** C04: resultant = Sylvester determinant (statements only; proofs in Refine/ResProofs*.v). *)
From RNT.Model Require Import Base Poly Resultant.
From RNT.Refine Require Import ResProofs.
Open Scope Z_scope.

(** [P] a zero argument gives 0, flag true, in either mode. *)
Theorem resultant_zero_l : forall m g, resultant m [] g = (true, Done 0).
Proof. exact ResProofs.resultant_zero_l. Qed.
Theorem resultant_zero_r : forall m f, resultant m f [] = (true, Done 0).
Proof. exact ResProofs.resultant_zero_r. Qed.
