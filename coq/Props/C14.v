(** * C14: number-field element arithmetic and multiplication tables.

    Specification language: MathComp, as in C09.  A coefficient list [s] denotes
    [Poly s : {poly Qc}]; [canonQ] / [canonZ] say "no trailing zero"; the minimal polynomial
    [f : list Z] denotes [Fq f = Poly (map qz f)]; [elem n a] says that [a] is a canonical
    representative of degree < n ([canonQ a && (size a <= n)]).  [%%] is MathComp's
    polynomial remainder over the field [Qc] ([QcRing]: the field operations are the stdlib
    [Qcplus], [Qcmult], ... by conversion).  All theorems are about the functions the
    correspondence check runs ([alg_mul], [alg_add], [alg_sub], [alg_pow]). *)
From RNT.Model Require Import Base Poly Algebraic MultTable Order.
From Coq Require Import QArith Qcanon.
From mathcomp Require Import all_ssreflect ssralg poly polydiv.
From mathcomp Require Import ssrZ.
From RNT.Refine Require Import QcRing PolyRefine PolyZ PolyQ AlgBasic AlgMul AlgQuot MultTableOps TableAgrees.
Set Implicit Arguments.
Unset Strict Implicit.
Import GRing.Theory.
Local Open Scope ring_scope.

(** ** Quotient ring Q[x]/(f), f of degree n >= 1, monic or not, reducible or not *)

(** [P] mul_with_mod_spec: the product returns, is canonical of degree < n, and is the
    remainder of the polynomial product modulo f. *)
Theorem mul_with_mod_spec (f : seq Z) (n : nat) :
  canonZ f -> size f = n.+1 -> forall a b : seq Qc, canonQ a -> canonQ b -> (size a <= n)%N -> (size b <= n)%N ->
  exists r, [/\ alg_mul f a b = Done r, canonQ r, (size r <= n)%N
              & Poly r = (Poly a * Poly b) %% Fq f].
Proof. exact (@mul_with_mod_main f n). Qed.

(** [P] the same congruence with the model's own list operations:
    a * b = q * f + r over Q for some q *)
Theorem mul_with_mod_congruence (f : seq Z) (n : nat) (a b : seq Qc) :
  canonZ f -> size f = n.+1 -> elem n a -> elem n b ->
  exists r q, [/\ alg_mul f a b = Done r, elem n r &
    pmul opsQc a b = padd opsQc (pmul opsQc q (List.map qz f)) r].
Proof. exact (@alg_mul_congruence f n a b). Qed.

Example mul_with_mod_ex :
  let f := [:: 1; 1; 0; 2]%Z in
  let a := [:: Qcdiv (qz 1) (qz 2); qz 3; qz (-1)] in let b := [:: qz 0; qz 1; qz 1] in
  [/\ canonZ f, elem 3 a, elem 3 b &
      Base.omap (List.map this) (alg_mul f a b) = Done [:: (-1 # 1)%Q; (0 # 1)%Q; (4 # 1)%Q]].
Proof. by split; vm_compute. Qed.

(** [P] sums and differences *)
Theorem alg_add_spec (n : nat) (a b : seq Qc) : elem n a -> elem n b ->
  elem n (alg_add a b) /\ Poly (alg_add a b) = Poly a + Poly b.
Proof. exact (@alg_add_ok n a b). Qed.
Theorem alg_sub_spec (n : nat) (a b : seq Qc) : elem n a -> elem n b ->
  elem n (alg_sub a b) /\ Poly (alg_sub a b) = Poly a - Poly b.
Proof. exact (@alg_sub_ok n a b). Qed.

(** [P] ring laws, as equalities of the stored representatives *)
Theorem alg_mul_comm (f : seq Z) (n : nat) :
  canonZ f -> size f = n.+1 -> forall a b : seq Qc, elem n a -> elem n b ->
  exists2 r, alg_mul f a b = Done r & alg_mul f b a = Done r.
Proof. exact (@AlgQuot.alg_mul_comm f n). Qed.

Theorem alg_mul_assoc (f : seq Z) (n : nat) :
  canonZ f -> size f = n.+1 -> forall a b c : seq Qc, elem n a -> elem n b -> elem n c ->
  exists ab bc r, [/\ alg_mul f a b = Done ab, alg_mul f ab c = Done r,
                      alg_mul f b c = Done bc & alg_mul f a bc = Done r].
Proof. exact (@AlgQuot.alg_mul_assoc f n). Qed.

Theorem alg_mul_distr (f : seq Z) (n : nat) :
  canonZ f -> size f = n.+1 -> forall a b c : seq Qc, elem n a -> elem n b -> elem n c ->
  exists ab ac r, [/\ alg_mul f a b = Done ab, alg_mul f a c = Done ac,
                      alg_mul f a (alg_add b c) = Done r & alg_add ab ac = r].
Proof. exact (@AlgQuot.alg_mul_distr f n). Qed.

Theorem alg_mul_one (f : seq Z) (n : nat) :
  canonZ f -> size f = n.+1 -> forall a : seq Qc, (0 < n)%N -> elem n a -> alg_mul f (alg_from_int 1) a = Done a.
Proof. exact (@AlgQuot.alg_mul_1l f n). Qed.

(** [P] binary exponentiation (both exponent types run this loop): the supplied fuel
    suffices and the result is the representative of a^e *)
Theorem alg_pow_spec (f : seq Z) (n : nat) :
  canonZ f -> size f = n.+1 -> forall (a : seq Qc) (e : Z), (0 < n)%N -> elem n a -> (0 <= e)%Z ->
  exists2 r, alg_pow f a e = Done r & elem n r /\ Poly r = (Poly a ^+ Z.to_nat e) %% Fq f.
Proof. exact (@alg_pow_ok f n). Qed.

(** [P] a^(s+t) = a^s * a^t *)
Theorem alg_pow_add (f : seq Z) (n : nat) :
  canonZ f -> size f = n.+1 -> forall (a : seq Qc) (s t : Z), (0 < n)%N -> elem n a -> (0 <= s)%Z -> (0 <= t)%Z ->
  exists ps pt r, [/\ alg_pow f a s = Done ps, alg_pow f a t = Done pt,
                      alg_pow f a (s + t) = Done r & alg_mul f ps pt = Done r].
Proof. exact (@AlgQuot.alg_pow_add f n). Qed.

Example alg_pow_ex :
  let f := [:: 1; 1; 0; 2]%Z in let a := [:: Qcdiv (qz 1) (qz 2); qz 3; qz (-1)] in
  [/\ canonZ f, elem 3 a, (0 < 3)%N &
      Base.omap (List.map this) (alg_pow f a 5)
      = Done [:: (-3471 # 32)%Q; (-2825 # 16)%Q; (-309 # 16)%Q]].
Proof. by split; vm_compute. Qed.

(** [P] the zero element absorbs ([mul_with_mod] returns before looking at the modulus) *)
Theorem alg_mul_zero_l : forall f b, alg_mul f [::] b = Done [::].
Proof. exact AlgBasic.alg_mul_zero_l. Qed.
Theorem alg_mul_zero_r : forall f a, alg_mul f a [::] = Done [::].
Proof. exact AlgBasic.alg_mul_zero_r. Qed.

(** ** Multiplication tables

    [cube n t]: the table is n x n x n.  [vadd], [vscale]: pointwise sum and scalar multiple of
    integer vectors.  [of_coords n b x = sum_(k < n) x_k *: Poly (row k of b)]: the element with
    coordinates [x] in the basis [b] (rows = basis vectors in the power basis of theta). *)

(** [P] mult_table_mul_bilinear: [mul] returns on well-shaped input and is linear in each argument
    (both build profiles: the debug assertions of [mul] hold on such input) *)
Theorem mult_table_mul_linear_l (m : mode) (n : nat) (t : table) (a a' b : seq Z) (c : Z) :
  cube n t -> size a = n -> size a' = n -> size b = n ->
  exists r r', [/\ mt_mul m t a b = Done r, mt_mul m t a' b = Done r' &
                   mt_mul m t (vadd (vscale c a) a') b = Done (vadd (vscale c r) r')].
Proof. exact (@mt_mul_linear_l m n t a a' b c). Qed.
Theorem mult_table_mul_linear_r (m : mode) (n : nat) (t : table) (a b b' : seq Z) (c : Z) :
  cube n t -> size a = n -> size b = n -> size b' = n ->
  exists r r', [/\ mt_mul m t a b = Done r, mt_mul m t a b' = Done r' &
                   mt_mul m t a (vadd (vscale c b) b') = Done (vadd (vscale c r) r')].
Proof. exact (@mt_mul_linear_r m n t a b b' c). Qed.

(** [P] trace_additive (and homogeneous) *)
Theorem trace_additive (n : nat) (t : table) (a a' : seq Z) (c : Z) :
  cube n t -> size a = n -> size a' = n ->
  exists r r', [/\ mt_trace t a = Done r, mt_trace t a' = Done r' &
                   mt_trace t (vadd (vscale c a) a') = Done (c * r + r')].
Proof. exact (@mt_trace_linear n t a a' c). Qed.

(** [P] closed forms: the defining sums *)
Theorem mult_table_mul_sum (m : mode) (n : nat) (t : table) (a b : seq Z) :
  cube n t -> size a = n -> size b = n ->
  mt_mul m t a b = Done (mkseq (fun k =>
     \sum_(i <- iota 0 n) \sum_(j <- iota 0 n) nth 0 a i * nth 0 b j * T3 t i j k) n).
Proof. exact (@mt_mul_closed m n t a b). Qed.
Theorem mult_table_trace_sum (n : nat) (t : table) (a : seq Z) :
  cube n t -> size a = n ->
  mt_trace t a = Done (\sum_(i <- iota 0 n) \sum_(j <- iota 0 n) nth 0 a i * T3 t j i j).
Proof. exact (@mt_trace_closed n t a). Qed.

(** [P] a table returned by [get_mult_table] for an n x n basis is n x n x n (and integral by
    construction: the integrality assertions of the code passed) *)
Theorem get_mult_table_shape (f : seq Z) (n : nat) :
  canonZ f -> size f = n.+1 -> forall b : seq (seq Qc), size b = n -> (forall i, (i < n)%N -> size (nth [::] b i) = n) ->
  forall t, get_mult_table b f = Done t -> cube n t.
Proof. exact (@table_cube f n). Qed.

(** [P] table_mul_agrees: if [get_mult_table] returned (so: the basis is invertible, products of
    basis elements have integer coordinates), [mul] on integer coordinate vectors returns the
    coordinates of the product of the two elements in Q[x]/(f) *)
Theorem table_mul_agrees (f : seq Z) (n : nat) :
  canonZ f -> size f = n.+1 -> forall b : seq (seq Qc), size b = n -> (forall i, (i < n)%N -> size (nth [::] b i) = n) ->
  forall t, get_mult_table b f = Done t ->
  forall (m : mode) (x y : seq Z), size x = n -> size y = n ->
  exists2 z, mt_mul m t x y = Done z &
    size z = n /\
    of_coords n b (map qz z) = (of_coords n b (map qz x) * of_coords n b (map qz y)) %% Fq f.
Proof. exact (@TableAgrees.table_mul_agrees f n). Qed.

(** [P] [to_z_basis_int] returns the integer coordinates of the element *)
Theorem to_z_basis_int_spec (n : nat) (b : seq (seq Qc)) :
  size b = n -> (forall i, (i < n)%N -> size (nth [::] b i) = n) ->
  forall (a : seq Qc) (r : seq Z), canonQ a -> (size a <= n)%N ->
  to_z_basis_int b a = Done r -> size r = n /\ of_coords n b (map qz r) = Poly a.
Proof. exact (@TableAgrees.to_z_basis_int_spec n b). Qed.

Example table_mul_agrees_ex :
  let f := [:: 5; 0; 1]%Z in
  let b := [:: [:: qz 1; qz 0]; [:: qz 0; qz 1]] in
  let t := [:: [:: [:: 1; 0]; [:: 0; 1]]; [:: [:: 0; 1]; [:: -5; 0]]]%Z in
  [/\ canonZ f, get_mult_table b f = Done t, cube 2 t &
      mt_mul Checked t [:: 1; 1]%Z [:: 1; -1]%Z = Done [:: 6; 0]%Z].
Proof. by split; vm_compute. Qed.


(** the table of Z[sqrt(-5)] from the model, and (1 + sqrt(-5))^{-1} = (1 - sqrt(-5)) / 6 *)
Example mult_table_sqrt_m5 :
  (do b <- singly_gen [:: 5; 0; 1]%Z (alg_new [:: 5; 0; 1]%Z); get_mult_table b [:: 5; 0; 1]%Z)
  = Done [:: [:: [:: 1; 0]; [:: 0; 1]]; [:: [:: 0; 1]; [:: -5; 0]]]%Z.
Proof. by vm_compute. Qed.

Example inv_sqrt_m5 :
  mt_inv [:: [:: [:: 1; 0]; [:: 0; 1]]; [:: [:: 0; 1]; [:: -5; 0]]]%Z [:: 1; 1]%Z = Done ([:: 1; -1]%Z, 6%Z).
Proof. by vm_compute. Qed.

(** ** norm *)
From mathcomp Require Import matrix.
From RNT.Refine Require Import MultTableNorm.

(** [P] norm_det: on an n x n x n table, [norm a] returns the determinant of the integer matrix
    [sum_i a_i T_i] (row j = coordinates of a * w_j: the multiplication matrix); the rational
    determinant computed by the code is an integer and the final [to_integer] does not truncate *)
Theorem norm_det (n : nat) (t : table) (a : seq Z) : cube n t -> size a = n ->
  mt_norm t a = Done (\det (\matrix_(j < n, k < n) \sum_(i <- iota 0 n) nth 0 a i * T3 t i j k)).
Proof. exact (@mt_norm_det n t a). Qed.

Example norm_det_ex :
  cube 2 [:: [:: [:: 1; 0]; [:: 0; 1]]; [:: [:: 0; 1]; [:: -5; 0]]]%Z /\
  mt_norm [:: [:: [:: 1; 0]; [:: 0; 1]]; [:: [:: 0; 1]; [:: -5; 0]]]%Z [:: 1; 1]%Z = Done 6%Z.
Proof. by split; vm_compute. Qed.

(** ** tables that come from orders are commutative and associative (second wave)

    [b] is an n x n rational matrix (rows = basis vectors in the power basis of theta), [f] the
    minimal polynomial of degree n (any n, also 0), [t] the table [get_mult_table] returned.  Then
    [mul] of [t] is commutative and associative on all integer vectors of length n, and the boolean
    flags that the C16 theorems take as hypotheses ([Ideal.table_shape], [Ideal.table_comm],
    [IdealLaws.table_assoc]) evaluate to [true].  Proof: [table_mul_agrees], the ring laws of
    Q[x]/(f), and injectivity of coordinates (the basis matrix is invertible because the
    [solve_linear_system] calls of [get_mult_table] returned [Ok]). *)
From RNT.Model Require Ideal.
From RNT.Refine Require IdealLaws.
From RNT.Refine Require Import AlgNormMx AlgNormOrder AlgNormFlags AlgNormInv.

(** [P] table_of_order_comm *)
Theorem table_of_order_comm (f : seq Z) (n : nat) :
  canonZ f -> size f = n.+1 -> forall b : seq (seq Qc), size b = n -> (forall i, (i < n)%N -> size (nth [::] b i) = n) ->
  forall t, get_mult_table b f = Done t ->
  forall (m : mode) (x y : seq Z), size x = n -> size y = n ->
  exists2 z, mt_mul m t x y = Done z & mt_mul m t y x = Done z.
Proof. exact (@AlgNormOrder.order_table_comm f n). Qed.

(** [P] table_of_order_assoc *)
Theorem table_of_order_assoc (f : seq Z) (n : nat) :
  canonZ f -> size f = n.+1 -> forall b : seq (seq Qc), size b = n -> (forall i, (i < n)%N -> size (nth [::] b i) = n) ->
  forall t, get_mult_table b f = Done t ->
  forall (m : mode) (x y z : seq Z), size x = n -> size y = n -> size z = n ->
  exists xy yz r, [/\ mt_mul m t x y = Done xy, mt_mul m t xy z = Done r,
                      mt_mul m t y z = Done yz & mt_mul m t x yz = Done r].
Proof. exact (@AlgNormOrder.order_table_assoc f n). Qed.

(** [P] table_of_order_comm_assoc: the table hypotheses of the C16 laws hold for tables of orders *)
Theorem table_of_order_comm_assoc (f : seq Z) (n : nat) :
  canonZ f -> size f = n.+1 -> forall b : seq (seq Qc), size b = n -> (forall i, (i < n)%N -> size (nth [::] b i) = n) ->
  forall t, get_mult_table b f = Done t ->
  [/\ Ideal.table_shape t = true, Ideal.table_comm t = true & IdealLaws.table_assoc t = true].
Proof. exact (@AlgNormOrder.order_table_flags f n). Qed.

(** non-vacuity: Z[i], the maximal order Z[(1+sqrt 5)/2] of Q(sqrt 5) in a basis that is not a power
    basis, and the equation order of x^3 + x + 1 (tables computed by the model) *)
Example table_of_order_ex_Zi :
  let f := [:: 1; 0; 1]%Z in let b := [:: [:: qz 1; qz 0]; [:: qz 0; qz 1]] in
  let t := [:: [:: [:: 1; 0]; [:: 0; 1]]; [:: [:: 0; 1]; [:: -1; 0]]]%Z in
  [/\ canonZ f, get_mult_table b f = Done t,
      [/\ Ideal.table_shape t = true, Ideal.table_comm t = true & IdealLaws.table_assoc t = true]
    & mt_mul Checked t [:: 1; 1]%Z [:: 2; 1]%Z = Done [:: 1; 3]%Z].
Proof. by split; vm_compute. Qed.

Example table_of_order_ex_golden :
  let f := [:: -5; 0; 1]%Z in
  let b := [:: [:: qz 1; qz 0]; [:: Qcdiv (qz 1) (qz 2); Qcdiv (qz 1) (qz 2)]] in
  let t := [:: [:: [:: 1; 0]; [:: 0; 1]]; [:: [:: 0; 1]; [:: 1; 1]]]%Z in
  [/\ canonZ f, get_mult_table b f = Done t,
      [/\ Ideal.table_shape t = true, Ideal.table_comm t = true & IdealLaws.table_assoc t = true]
    & mt_mul Checked t [:: 1; 2]%Z [:: 3; -1]%Z = Done [:: 1; 3]%Z].
Proof. by split; vm_compute. Qed.

Definition t_cubic : table :=
  [:: [:: [:: 1; 0; 0]; [:: 0; 1; 0]; [:: 0; 0; 1]]; [:: [:: 0; 1; 0]; [:: 0; 0; 1]; [:: -1; -1; 0]];
      [:: [:: 0; 0; 1]; [:: -1; -1; 0]; [:: 0; -1; -1]]]%Z.

Example table_of_order_ex_cubic :
  let f := [:: 1; 1; 0; 1]%Z in
  [/\ canonZ f, (do b <- singly_gen f (alg_new f); get_mult_table b f) = Done t_cubic
    & [/\ Ideal.table_shape t_cubic = true, Ideal.table_comm t_cubic = true
        & IdealLaws.table_assoc t_cubic = true]].
Proof. by split; vm_compute. Qed.

(** ** the norm is multiplicative; the trace is a matrix trace

    [P] norm_multiplicative: on an n x n x n table whose [mul] is associative (hypothesis: the boolean
    [IdealLaws.table_assoc], which holds for every table of an order by [table_of_order_comm_assoc]),
    [norm (a * b) = norm a * norm b].  Proof: [v |-> v *m M_a] is [v |-> a * v] for the integer matrix
    [M_a = sum_i a_i T_i] of [norm_det]; associativity gives [M_(a*b) = M_b *m M_a]; [det_mulmx]. *)
Theorem norm_multiplicative (m : mode) (n : nat) (t : table) (a b : seq Z) :
  cube n t -> IdealLaws.table_assoc t = true -> size a = n -> size b = n ->
  exists ab na nb, [/\ mt_mul m t a b = Done ab, mt_norm t a = Done na, mt_norm t b = Done nb
                     & mt_norm t ab = Done (na * nb)].
Proof. exact (@AlgNormFlags.flag_norm_mul m n t a b). Qed.

(** [P] the same for the table of an order, without a flag *)
Theorem norm_multiplicative_order (f : seq Z) (n : nat) :
  canonZ f -> size f = n.+1 -> forall b : seq (seq Qc), size b = n -> (forall i, (i < n)%N -> size (nth [::] b i) = n) ->
  forall t, get_mult_table b f = Done t ->
  forall (m : mode) (x y : seq Z), size x = n -> size y = n ->
  exists xy nx ny, [/\ mt_mul m t x y = Done xy, mt_norm t x = Done nx, mt_norm t y = Done ny
                     & mt_norm t xy = Done (nx * ny)].
Proof. exact (@AlgNormOrder.order_norm_mul f n). Qed.

(** [P] the representation matrices themselves: [M_(a*b) = M_b *m M_a] *)
Theorem rep_matrix_mul (m : mode) (n : nat) (t : table) (a b ab : seq Z) :
  cube n t -> IdealLaws.table_assoc t = true -> size a = n -> size b = n -> mt_mul m t a b = Done ab ->
  (\matrix_(j < n, k < n) \sum_(i <- iota 0 n) nth 0 ab i * T3 t i j k)
  = (\matrix_(j < n, k < n) \sum_(i <- iota 0 n) nth 0 b i * T3 t i j k)
    *m (\matrix_(j < n, k < n) \sum_(i <- iota 0 n) nth 0 a i * T3 t i j k) :> 'M[Z]_n.
Proof. exact (@AlgNormFlags.flag_rep_mul m n t a b ab). Qed.

Example norm_multiplicative_ex :
  [/\ cube 3 t_cubic /\ IdealLaws.table_assoc t_cubic = true,
      mt_mul Checked t_cubic [:: 1; 2; 3]%Z [:: 2; 1; 0]%Z = Done [:: -1; 2; 8]%Z,
      mt_norm t_cubic [:: 1; 2; 3]%Z = Done 27%Z, mt_norm t_cubic [:: 2; 1; 0]%Z = Done 9%Z
    & mt_norm t_cubic [:: -1; 2; 8]%Z = Done 243%Z].
Proof. by split; vm_compute. Qed.

(** [P] trace_is_matrix_trace: [trace a] is the trace of the matrix of [x |-> x * a]
    (row j = coordinates of w_j * a); on a commutative table (boolean [Ideal.table_comm]; every table
    of an order) this is the matrix [M_a] of [norm_det], so [trace a = tr M_a], [norm a = det M_a] *)
Theorem trace_is_matrix_trace (n : nat) (t : table) (a : seq Z) : cube n t -> size a = n ->
  mt_trace t a = Done (\tr (\matrix_(j < n, k < n) \sum_(i <- iota 0 n) nth 0 a i * T3 t j i k)).
Proof. exact (@AlgNormMx.mt_trace_Rrep n t a). Qed.

Theorem trace_is_rep_trace (n : nat) (t : table) (a : seq Z) :
  cube n t -> Ideal.table_comm t = true -> size a = n ->
  mt_trace t a = Done (\tr (\matrix_(j < n, k < n) \sum_(i <- iota 0 n) nth 0 a i * T3 t i j k)).
Proof. exact (@AlgNormFlags.flag_trace n t a). Qed.

Theorem trace_is_rep_trace_order (f : seq Z) (n : nat) :
  canonZ f -> size f = n.+1 -> forall b : seq (seq Qc), size b = n -> (forall i, (i < n)%N -> size (nth [::] b i) = n) ->
  forall t, get_mult_table b f = Done t -> forall x : seq Z, size x = n ->
  mt_trace t x = Done (\tr (\matrix_(j < n, k < n) \sum_(i <- iota 0 n) nth 0 x i * T3 t i j k)).
Proof. exact (@AlgNormOrder.order_trace f n). Qed.

Example trace_ex : cube 3 t_cubic /\ Ideal.table_comm t_cubic = true /\
  mt_trace t_cubic [:: 1; 2; 3]%Z = Done (-3)%Z.
Proof. by split; [|split]; vm_compute. Qed.

(** ** inverse

    [P] inv_spec: on an n x n x n table (nothing else assumed), with [nm] the value of [norm a]:
    if [nm = 0], [inv a] panics ([unwrap] of [Err(MatrixNotInvertible)]); if [nm <> 0], [inv a]
    returns [(b, |nm|)] with [a * b = |nm| * e_0] ([Ideal.scalar_vec n d = (d, 0, ..., 0)]).  The
    rational vector [|nm| * (row 0 of M_a^-1)] the code truncates with [to_integer] is integral
    (it is [sgn nm * row 0 of adj M_a]), so nothing is lost.  When [w_0 = 1], [b / |nm|] is the
    inverse of [a]: see [inv_cancel]. *)
Theorem inv_spec (m : mode) (n : nat) (t : table) (a : seq Z) : cube n t -> size a = n ->
  exists nm, [/\ mt_norm t a = Done nm, nm = 0 -> mt_inv t a = Panic PUnwrap
    & nm <> 0 -> exists b, [/\ mt_inv t a = Done (b, Z.abs nm), size b = n
                     & mt_mul m t a b = Done (Ideal.scalar_vec n (Z.abs nm))]].
Proof. exact (@AlgNormInv.mt_inv_spec2 m n t a). Qed.

(** [P] inv_cancel: if moreover [mul] is associative and [e_0] is a right identity, then for [(b, d)]
    returned by [inv a]: [(c * a) * b = d * c] for every [c] *)
Theorem inv_cancel (m : mode) (n : nat) (t : table) (a b : seq Z) (d : Z) :
  cube n t -> IdealLaws.table_assoc t = true ->
  (forall v, size v = n -> mt_mul m t v (Ideal.unit_vec n 0) = Done v) ->
  size a = n -> mt_inv t a = Done (b, d) ->
  forall c, size c = n ->
  exists2 ca, mt_mul m t c a = Done ca & mt_mul m t ca b = Done (vscale d c).
Proof. exact (@AlgNormFlags.flag_inv_cancel m n t a b d). Qed.

Example inv_spec_ex :
  [/\ cube 3 t_cubic, mt_norm t_cubic [:: 1; 2; 3]%Z = Done 27%Z,
      mt_inv t_cubic [:: 1; 2; 3]%Z = Done ([:: 14; -11; 10]%Z, 27%Z),
      mt_mul Checked t_cubic [:: 1; 2; 3]%Z [:: 14; -11; 10]%Z = Done (Ideal.scalar_vec 3 27)
    & mt_norm t_cubic [:: 1; 1; 1]%Z = Done 3%Z /\ mt_inv t_cubic [:: 0; 0; 0]%Z = Panic PUnwrap].
Proof. by split; vm_compute. Qed.

(** ** norm and resultant

    [resultant p q] is MathComp's determinant of the Sylvester matrix ([mxpoly]); in the orientation
    of the property text (ResSylvester.v) the classical Res(f, g) is [resultant g f].

    [P] norm_resultant: for every f of degree n >= 1 (any leading coefficient, reducible or not),
    every basis [b] and the table [t] that [get_mult_table] returned: with [g = of_coords n b a] the
    polynomial such that the element with coordinates [a] is [g(theta)],
    [norm a = Res(f, g) / lc(f)^(deg g)] (for [g = 0], [(size g).-1 = 0] and [resultant 0 f = 0]).
    Proof: reduce the rows [g * X^j] of the Sylvester matrix modulo the rows of [f]; the remaining
    block is the matrix of multiplication by [g] in the power basis, which is conjugate (by the
    invertible basis matrix) to the integer matrix [M_a] of [norm_det]. *)
From mathcomp Require Import mxpoly.
From RNT.Refine Require Import AlgNormRes.

Theorem norm_resultant (f : seq Z) (n : nat) :
  canonZ f -> size f = n.+1 -> (0 < n)%N ->
  forall b : seq (seq Qc), size b = n -> (forall i, (i < n)%N -> size (nth [::] b i) = n) ->
  forall t, get_mult_table b f = Done t ->
  forall a : seq Z, size a = n ->
  let g := of_coords n b (map qz a) in
  exists2 nm, mt_norm t a = Done nm
            & qz nm = resultant g (Fq f) / lead_coef (Fq f) ^+ (size g).-1.
Proof. exact (@AlgNormRes.norm_resultant_gen f n). Qed.

(** [P] norm_resultant_monic: for monic f and the power basis (row i of [b] is theta^i: the basis of
    [trivial_order_monic], [identity_power_basis]) the same over Z: [norm a = Res(f, a(x))] *)
Theorem norm_resultant_monic (f : seq Z) (n : nat) :
  canonZ f -> size f = n.+1 -> nth 0%Z f n = 1%Z ->
  forall b : seq (seq Qc), size b = n -> (forall i, (i < n)%N -> size (nth [::] b i) = n) ->
  (forall i, (i < n)%N -> Poly (nth [::] b i) = 'X^i :> {poly Qc}) ->
  forall t, get_mult_table b f = Done t ->
  forall a : seq Z, size a = n -> Poly a != 0 :> {poly Z} ->
  mt_norm t a = Done (resultant (Poly a) (Poly f)).
Proof. exact (@AlgNormRes.norm_resultant_Z f n). Qed.

Theorem identity_power_basis (n : nat) :
  [/\ size (LinAlg.identity LinAlg.fopsQc n) = n,
      forall i, (i < n)%N -> size (nth [::] (LinAlg.identity LinAlg.fopsQc n) i) = n
    & forall i, (i < n)%N -> Poly (nth [::] (LinAlg.identity LinAlg.fopsQc n) i) = 'X^i :> {poly Qc}].
Proof. exact (@AlgNormRes.identity_power_basis n). Qed.

(** non-vacuity: the equation order of x^3 + x + 1 (power basis = what [trivial_order_monic] returns),
    and the starting order {1, 2 theta, 2 theta^2} of the non-monic 2x^3 + x + 1 *)
Example norm_resultant_ex_monic :
  let f := [:: 1; 1; 0; 1]%Z in
  [/\ canonZ f, nth 0%Z f 3 = 1%Z,
      Base.omap (List.map (List.map this)) (trivial_order_monic f)
      = Done (List.map (List.map this) (LinAlg.identity LinAlg.fopsQc 3)),
      get_mult_table (LinAlg.identity LinAlg.fopsQc 3) f = Done t_cubic
    & mt_norm t_cubic [:: 1; 2; 3]%Z = Done 27%Z].
Proof. by split; vm_compute. Qed.

Example norm_resultant_ex_nonmonic :
  let f := [:: 1; 1; 0; 2]%Z in
  let b := [:: [:: qz 1; qz 0; qz 0]; [:: qz 0; qz 2; qz 0]; [:: qz 0; qz 0; qz 2]] in
  let t := [:: [:: [:: 1; 0; 0]; [:: 0; 1; 0]; [:: 0; 0; 1]]; [:: [:: 0; 1; 0]; [:: 0; 0; 2]; [:: -2; -1; 0]];
               [:: [:: 0; 0; 1]; [:: -2; -1; 0]; [:: 0; -1; -1]]]%Z in
  [/\ canonZ f, Base.omap (List.map (List.map this)) (non_monic_initial_order f) = Done (List.map (List.map this) b),
      get_mult_table b f = Done t & mt_norm t [:: 1; 2; 3]%Z = Done 34%Z].
Proof. by split; vm_compute. Qed.

(** ** the inverse different is the dual lattice of the trace form (third wave)

    [mt_inv_diff t = Done (l, N)] is [get_inv_diff] up to the constructor [FracIdeal::new(l, HNF N)]: the
    fractional ideal N / l.  [trace_form t n] (DetInvDiff.v) is the integer matrix Tr with Tr_ij = trace(w_i w_j);
    [In_rowspanZ n v N] (MatZ.v): v is an integer combination of the rows of N; [zrv n v] reads the list v as a
    row vector.  Nothing is assumed about the table beyond its shape (no commutativity, associativity, unit). *)
From RNT.Refine Require Import MatZ LinAlgQc DetBridge DetInvDiff.
From RNT.Refine Require OrderW3Dual.
Local Open Scope ring_scope.

(** [P] the scaled inverse: N is the normal form of an integer matrix Int with Int * Tr = Tr * Int = l (l > 0),
    i.e. Int = l * Tr^-1 *)
Theorem inv_diff_scaled_inverse (n : nat) (t : table) (l : Z) (N : seq (seq Z)) :
  cube n t -> (0 < n)%N -> mt_inv_diff t = Done (l, N) ->
  exists int : seq (seq Z),
    [/\ (0 < l)%Z, shape n n int, Hnf.hnf_new int = Done N,
        zmx n n int *m trace_form t n = l%:M & trace_form t n *m zmx n n int = l%:M].
Proof. exact (@OrderW3Dual.inv_diff_scaled_inverse n t l N). Qed.

(** [P] inv_diff_dual, matrix form: an integer vector v lies in the lattice of N iff v * Tr is divisible by l *)
Theorem inv_diff_dual_mx (n : nat) (t : table) (l : Z) (N : seq (seq Z)) :
  cube n t -> (0 < n)%N -> mt_inv_diff t = Done (l, N) ->
  forall v : seq Z,
  In_rowspanZ n v N <-> (length v = n /\ exists c : 'rV[Z]_n, zrv n v *m trace_form t n = l *: c).
Proof. exact (@OrderW3Dual.inv_diff_dual_mx n t l N). Qed.

(** [P] inv_diff_dual: N / l is the dual of the order for the trace form: an integer vector v lies in the lattice
    of N iff for every integer vector w, [trace (mul v w)] (as returned by [MultTable::mul], [MultTable::trace]) is
    divisible by l, i.e. trace((v / l) * w) is an integer *)
Theorem inv_diff_dual (m : mode) (n : nat) (t : table) (l : Z) (N : seq (seq Z)) :
  cube n t -> (0 < n)%N -> mt_inv_diff t = Done (l, N) ->
  forall v : seq Z, size v = n ->
  (In_rowspanZ n v N <->
   forall w : seq Z, size w = n ->
   exists vw tr, [/\ mt_mul m t v w = Done vw, mt_trace t vw = Done tr & Z.divide l tr]).
Proof. exact (@OrderW3Dual.inv_diff_dual m n t l N). Qed.

(** [P] the trace of a product is the bilinear form of Tr (used above; no hypothesis on the table but its shape) *)
Theorem trace_mul_form (m : mode) (n : nat) (t : table) (v w : seq Z) : cube n t -> size v = n -> size w = n ->
  exists vw, [/\ mt_mul m t v w = Done vw, size vw = n
    & mt_trace t vw = Done (\sum_(i < n) \sum_(j < n) nth 0%Z v i * nth 0%Z w j * trace_form t n i j)].
Proof. exact (@OrderW3Dual.trace_mul_form m n t v w). Qed.

(** non-vacuity: Z[sqrt(-5)] (Tr = diag(2, -10), inverse different = (1/10) <5, sqrt(-5)> = (1 / (2 sqrt(-5)))), and
    the equation order of x^3 + x + 1 (disc -31) *)
Example inv_diff_dual_ex :
  [/\ cube 2 [:: [:: [:: 1; 0]; [:: 0; 1]]; [:: [:: 0; 1]; [:: -5; 0]]]%Z,
      mt_inv_diff [:: [:: [:: 1; 0]; [:: 0; 1]]; [:: [:: 0; 1]; [:: -5; 0]]]%Z = Done (10%Z, [:: [:: 5; 0]; [:: 0; 1]]%Z),
      cube 3 t_cubic
    & mt_inv_diff t_cubic = Done (31%Z, [:: [:: 31; 0; 0]; [:: 0; 31; 0]; [:: 11; 14; 1]]%Z)].
Proof. by split; vm_compute. Qed.

(** ** [P] get_mult_table_iff: [Order::get_mult_table] returns exactly on the bases closed under multiplication.
    For a basis b of full rank of Q[x]/(f) (n rows of length n, non-zero determinant; f canonical of degree n):
    a table is returned iff every product b_i b_j mod f has integer coordinates on b
    ([closed_under_mul]: the Z-span of b is closed under multiplication).  The function has no unbounded loop,
    so every other outcome is a panic (the integrality assertion or the unwrap of the linear solver). *)
From RNT.Refine Require MultTableTotal.
Theorem get_mult_table_total (f : seq Z) (n : nat) (b : seq (seq Qc)) :
  canonZ f -> size f = n.+1 -> size b = n -> (forall i, (i < n)%N -> size (nth [::] b i) = n) ->
  \det (qmx n n b) != 0 ->
  (forall i j, (i < n)%N -> (j < n)%N ->
    exists c : seq Z, size c = n /\
      (Poly (nth [::] b i) * Poly (nth [::] b j)) %% Fq f = of_coords n b (map qz c)) ->
  exists T, get_mult_table b f = Done T.
Proof. move=> cf szf sb rb db h; exact: (MultTableTotal.get_mult_table_total cf szf sb rb db h). Qed.
Theorem get_mult_table_iff (f : seq Z) (n : nat) (b : seq (seq Qc)) :
  canonZ f -> size f = n.+1 -> size b = n -> (forall i, (i < n)%N -> size (nth [::] b i) = n) ->
  \det (qmx n n b) != 0 ->
  ((exists T, get_mult_table b f = Done T) <-> MultTableTotal.closed_under_mul f n b).
Proof. move=> cf szf sb rb db; exact: (MultTableTotal.get_mult_table_iff cf szf sb rb db). Qed.
(* non-vacuity: Z[(1+sqrt 5)/2] in Q[x]/(x^2 - 5) returns; (1/2) Z[sqrt 5] (not closed: (1/2)^2 = 1/4) panics *)
Example get_mult_table_total_ex :
  get_mult_table [:: [:: Q2Qc 1; Q2Qc 0]; [:: Q2Qc (1 # 2); Q2Qc (1 # 2)]] [:: -5; 0; 1]%Z
    = Done [:: [:: [:: 1; 0]; [:: 0; 1]]; [:: [:: 0; 1]; [:: 1; 1]]]%Z
  /\ get_mult_table [:: [:: Q2Qc (1 # 2); Q2Qc 0]; [:: Q2Qc 0; Q2Qc (1 # 2)]] [:: -5; 0; 1]%Z = Panic PAssert.
Proof. by split; vm_compute. Qed.

(** ** [P] get_inv_diff_total (seventh wave): [MultTable::get_inv_diff] returns exactly when the trace form is
    non-degenerate.  On every n x n x n table (n >= 1, nothing else assumed), with Tr = [trace_form t n] the integer
    matrix Tr_ij = trace(w_i w_j): if det Tr <> 0 then [mt_inv_diff] returns some (l, N) (about which
    [inv_diff_dual] speaks); if det Tr = 0 the outcome is the panic of [unwrap] on [Err(MatrixNotInvertible)].
    No other outcome exists (the function has no unbounded loop: no [OutOfFuel]). *)
From RNT.Refine Require W7MiscInvDiff.
Theorem get_inv_diff_total (n : nat) (t : table) : cube n t -> (0 < n)%N ->
  (\det (trace_form t n) <> 0 -> exists l N, mt_inv_diff t = Done (l, N)) /\
  (\det (trace_form t n) = 0 -> mt_inv_diff t = Panic PUnwrap).
Proof. exact (@W7MiscInvDiff.mt_inv_diff_total2 n t). Qed.
Theorem get_inv_diff_returns_iff (n : nat) (t : table) : cube n t -> (0 < n)%N ->
  ((exists l N, mt_inv_diff t = Done (l, N)) <-> \det (trace_form t n) <> 0).
Proof. exact (@W7MiscInvDiff.mt_inv_diff_returns_iff n t). Qed.
(* non-vacuity: the table of Q[x]/(x^2) on (1, x) (Tr = [[2, 0], [0, 0]], degenerate) panics; Z[sqrt(-5)] and the
   cubic table return (inv_diff_dual_ex above) *)
Example get_inv_diff_total_ex :
  let t0 := [:: [:: [:: 1; 0]; [:: 0; 1]]; [:: [:: 0; 1]; [:: 0; 0]]]%Z in
  [/\ cube 2 t0, mt_inv_diff t0 = Panic PUnwrap, cube 3 t_cubic
    & mt_inv_diff t_cubic = Done (31%Z, [:: [:: 31; 0; 0]; [:: 0; 31; 0]; [:: 11; 14; 1]]%Z)].
Proof. by split; vm_compute. Qed.

(** ** [P] to_z_basis_spec (seventh wave): [Order::to_z_basis] returns THE rational coordinate vector.
    For a basis b of n rows of length n with non-zero determinant and every coefficient list a of length <= n
    (canonical or not): [to_z_basis b a] returns a vector x of length n with sum_k x_k b_k = a
    ([of_coords n b x = Poly a]), and x is the only vector of length n with that property.  Partial correctness
    without the determinant hypothesis ([to_z_basis_ok]); on a singular square basis the outcome is the panic of
    [expect] on [Err(MatrixNotInvertible)] ([to_z_basis_singular]). *)
From RNT.Refine Require W7MiscZBasis.
Theorem to_z_basis_spec (n : nat) (b : seq (seq Qc)) :
  size b = n -> (forall i, (i < n)%N -> size (nth [::] b i) = n) ->
  forall a : seq Qc, \det (qmx n n b) != 0 -> (size a <= n)%N ->
  exists x, [/\ to_z_basis b a = Done x, size x = n, of_coords n b x = Poly a
              & forall y, size y = n -> of_coords n b y = Poly a -> y = x].
Proof. exact (@W7MiscZBasis.to_z_basis_spec n b). Qed.
Theorem to_z_basis_ok (n : nat) (b : seq (seq Qc)) :
  size b = n -> (forall i, (i < n)%N -> size (nth [::] b i) = n) ->
  forall a x : seq Qc, (size a <= n)%N ->
  to_z_basis b a = Done x -> size x = n /\ of_coords n b x = Poly a.
Proof. exact (@W7MiscZBasis.to_z_basis_ok n b). Qed.
Theorem to_z_basis_singular (n : nat) (b : seq (seq Qc)) :
  size b = n -> (forall i, (i < n)%N -> size (nth [::] b i) = n) ->
  forall a : seq Qc, \det (qmx n n b) = 0 -> to_z_basis b a = Panic PUnwrap.
Proof. exact (@W7MiscZBasis.to_z_basis_singular n b). Qed.
(* non-vacuity: 3/4 + (1/4) sqrt 5 = 1/2 * 1 + 1/2 * (1 + sqrt 5)/2 on the basis of Z[(1 + sqrt 5)/2]; a singular basis panics *)
Example to_z_basis_spec_ex :
  Base.omap (List.map this)
    (to_z_basis [:: [:: Q2Qc 1; Q2Qc 0]; [:: Q2Qc (1 # 2); Q2Qc (1 # 2)]] [:: Q2Qc (3 # 4); Q2Qc (1 # 4)])
    = Done [:: (1 # 2)%Q; (1 # 2)%Q]
  /\ to_z_basis [:: [:: Q2Qc 1; Q2Qc 2]; [:: Q2Qc 2; Q2Qc 4]] [:: Q2Qc 1; Q2Qc 1] = Panic PUnwrap.
Proof. by split; vm_compute. Qed.
