(** C14: number-field element arithmetic and multiplication tables (first version). *)
From RNT.Model Require Import Base Poly Algebraic MultTable Order.
From RNT.Refine Require Import AlgBasic.
From Coq Require Import QArith Qcanon.
Open Scope Z_scope.

(** [P] *)
Theorem alg_mul_zero_l : forall f b, alg_mul f [] b = Done [].
Proof. exact AlgBasic.alg_mul_zero_l. Qed.

Theorem alg_mul_zero_r : forall f a, alg_mul f a [] = Done [].
Proof. exact AlgBasic.alg_mul_zero_r. Qed.

(** the table of Z[sqrt(-5)] from the model, and (1 + sqrt(-5))^{-1} = (1 - sqrt(-5)) / 6 *)
Example mult_table_sqrt_m5 :
  (do b <- singly_gen [5; 0; 1] (alg_new [5; 0; 1]); get_mult_table b [5; 0; 1])
  = Done [[[1; 0]; [0; 1]]; [[0; 1]; [-5; 0]]].
Proof. vm_compute. reflexivity. Qed.

Example inv_sqrt_m5 :
  mt_inv [[[1; 0]; [0; 1]]; [[0; 1]; [-5; 0]]] [1; 1] = Done ([1; -1], 6).
Proof. vm_compute. reflexivity. Qed.
