(** * C14: number-field element arithmetic and multiplication tables.

    Specification language: MathComp, as in C09.  A coefficient list [s] denotes
    [Poly s : {poly Qc}]; [canonQ] / [canonZ] say "no trailing zero"; the minimal polynomial
    [f : list Z] denotes [Fq f = Poly (map qz f)]; [elem n a] says that [a] is a canonical
    representative of degree < n ([canonQ a && (size a <= n)]).  [%%] is MathComp's
    polynomial remainder over the field [Qc] ([QcRing]: the field operations are the stdlib
    [Qcplus], [Qcmult], ... by conversion).  All theorems are about the functions the
    correspondence check runs ([alg_mul], [alg_add], [alg_sub], [alg_pow]). *)
From RNT.Model Require Import Base Poly Algebraic MultTable Order.
From Coq Require Import QArith Qcanon.
From mathcomp Require Import all_ssreflect ssralg poly polydiv.
From mathcomp Require Import ssrZ.
From RNT.Refine Require Import QcRing PolyRefine PolyZ PolyQ AlgBasic AlgMul AlgQuot MultTableOps TableAgrees.
Set Implicit Arguments.
Unset Strict Implicit.
Import GRing.Theory.
Local Open Scope ring_scope.

(** ** Quotient ring Q[x]/(f), f of degree n >= 1, monic or not, reducible or not *)

(** [P] mul_with_mod_spec: the product returns, is canonical of degree < n, and is the
    remainder of the polynomial product modulo f. *)
Theorem mul_with_mod_spec (f : seq Z) (n : nat) :
  canonZ f -> size f = n.+1 -> forall a b : seq Qc, canonQ a -> canonQ b -> (size a <= n)%N -> (size b <= n)%N ->
  exists r, [/\ alg_mul f a b = Done r, canonQ r, (size r <= n)%N
              & Poly r = (Poly a * Poly b) %% Fq f].
Proof. exact (@mul_with_mod_main f n). Qed.

(** [P] the same congruence with the model's own list operations:
    a * b = q * f + r over Q for some q *)
Theorem mul_with_mod_congruence (f : seq Z) (n : nat) (a b : seq Qc) :
  canonZ f -> size f = n.+1 -> elem n a -> elem n b ->
  exists r q, [/\ alg_mul f a b = Done r, elem n r &
    pmul opsQc a b = padd opsQc (pmul opsQc q (List.map qz f)) r].
Proof. exact (@alg_mul_congruence f n a b). Qed.

Example mul_with_mod_ex :
  let f := [:: 1; 1; 0; 2]%Z in
  let a := [:: Qcdiv (qz 1) (qz 2); qz 3; qz (-1)] in let b := [:: qz 0; qz 1; qz 1] in
  [/\ canonZ f, elem 3 a, elem 3 b &
      Base.omap (List.map this) (alg_mul f a b) = Done [:: (-1 # 1)%Q; (0 # 1)%Q; (4 # 1)%Q]].
Proof. by split; vm_compute. Qed.

(** [P] sums and differences *)
Theorem alg_add_spec (n : nat) (a b : seq Qc) : elem n a -> elem n b ->
  elem n (alg_add a b) /\ Poly (alg_add a b) = Poly a + Poly b.
Proof. exact (@alg_add_ok n a b). Qed.
Theorem alg_sub_spec (n : nat) (a b : seq Qc) : elem n a -> elem n b ->
  elem n (alg_sub a b) /\ Poly (alg_sub a b) = Poly a - Poly b.
Proof. exact (@alg_sub_ok n a b). Qed.

(** [P] ring laws, as equalities of the stored representatives *)
Theorem alg_mul_comm (f : seq Z) (n : nat) :
  canonZ f -> size f = n.+1 -> forall a b : seq Qc, elem n a -> elem n b ->
  exists2 r, alg_mul f a b = Done r & alg_mul f b a = Done r.
Proof. exact (@AlgQuot.alg_mul_comm f n). Qed.

Theorem alg_mul_assoc (f : seq Z) (n : nat) :
  canonZ f -> size f = n.+1 -> forall a b c : seq Qc, elem n a -> elem n b -> elem n c ->
  exists ab bc r, [/\ alg_mul f a b = Done ab, alg_mul f ab c = Done r,
                      alg_mul f b c = Done bc & alg_mul f a bc = Done r].
Proof. exact (@AlgQuot.alg_mul_assoc f n). Qed.

Theorem alg_mul_distr (f : seq Z) (n : nat) :
  canonZ f -> size f = n.+1 -> forall a b c : seq Qc, elem n a -> elem n b -> elem n c ->
  exists ab ac r, [/\ alg_mul f a b = Done ab, alg_mul f a c = Done ac,
                      alg_mul f a (alg_add b c) = Done r & alg_add ab ac = r].
Proof. exact (@AlgQuot.alg_mul_distr f n). Qed.

Theorem alg_mul_one (f : seq Z) (n : nat) :
  canonZ f -> size f = n.+1 -> forall a : seq Qc, (0 < n)%N -> elem n a -> alg_mul f (alg_from_int 1) a = Done a.
Proof. exact (@AlgQuot.alg_mul_1l f n). Qed.

(** [P] binary exponentiation (both exponent types run this loop): the supplied fuel
    suffices and the result is the representative of a^e *)
Theorem alg_pow_spec (f : seq Z) (n : nat) :
  canonZ f -> size f = n.+1 -> forall (a : seq Qc) (e : Z), (0 < n)%N -> elem n a -> (0 <= e)%Z ->
  exists2 r, alg_pow f a e = Done r & elem n r /\ Poly r = (Poly a ^+ Z.to_nat e) %% Fq f.
Proof. exact (@alg_pow_ok f n). Qed.

(** [P] a^(s+t) = a^s * a^t *)
Theorem alg_pow_add (f : seq Z) (n : nat) :
  canonZ f -> size f = n.+1 -> forall (a : seq Qc) (s t : Z), (0 < n)%N -> elem n a -> (0 <= s)%Z -> (0 <= t)%Z ->
  exists ps pt r, [/\ alg_pow f a s = Done ps, alg_pow f a t = Done pt,
                      alg_pow f a (s + t) = Done r & alg_mul f ps pt = Done r].
Proof. exact (@AlgQuot.alg_pow_add f n). Qed.

Example alg_pow_ex :
  let f := [:: 1; 1; 0; 2]%Z in let a := [:: Qcdiv (qz 1) (qz 2); qz 3; qz (-1)] in
  [/\ canonZ f, elem 3 a, (0 < 3)%N &
      Base.omap (List.map this) (alg_pow f a 5)
      = Done [:: (-3471 # 32)%Q; (-2825 # 16)%Q; (-309 # 16)%Q]].
Proof. by split; vm_compute. Qed.

(** [P] the zero element absorbs ([mul_with_mod] returns before looking at the modulus) *)
Theorem alg_mul_zero_l : forall f b, alg_mul f [::] b = Done [::].
Proof. exact AlgBasic.alg_mul_zero_l. Qed.
Theorem alg_mul_zero_r : forall f a, alg_mul f a [::] = Done [::].
Proof. exact AlgBasic.alg_mul_zero_r. Qed.

(** ** Multiplication tables

    [cube n t]: the table is n x n x n.  [vadd], [vscale]: pointwise sum and scalar multiple of
    integer vectors.  [of_coords n b x = sum_(k < n) x_k *: Poly (row k of b)]: the element with
    coordinates [x] in the basis [b] (rows = basis vectors in the power basis of theta). *)

(** [P] mult_table_mul_bilinear: [mul] returns on well-shaped input and is linear in each argument
    (both build profiles: the debug assertions of [mul] hold on such input) *)
Theorem mult_table_mul_linear_l (m : mode) (n : nat) (t : table) (a a' b : seq Z) (c : Z) :
  cube n t -> size a = n -> size a' = n -> size b = n ->
  exists r r', [/\ mt_mul m t a b = Done r, mt_mul m t a' b = Done r' &
                   mt_mul m t (vadd (vscale c a) a') b = Done (vadd (vscale c r) r')].
Proof. exact (@mt_mul_linear_l m n t a a' b c). Qed.
Theorem mult_table_mul_linear_r (m : mode) (n : nat) (t : table) (a b b' : seq Z) (c : Z) :
  cube n t -> size a = n -> size b = n -> size b' = n ->
  exists r r', [/\ mt_mul m t a b = Done r, mt_mul m t a b' = Done r' &
                   mt_mul m t a (vadd (vscale c b) b') = Done (vadd (vscale c r) r')].
Proof. exact (@mt_mul_linear_r m n t a b b' c). Qed.

(** [P] trace_additive (and homogeneous) *)
Theorem trace_additive (n : nat) (t : table) (a a' : seq Z) (c : Z) :
  cube n t -> size a = n -> size a' = n ->
  exists r r', [/\ mt_trace t a = Done r, mt_trace t a' = Done r' &
                   mt_trace t (vadd (vscale c a) a') = Done (c * r + r')].
Proof. exact (@mt_trace_linear n t a a' c). Qed.

(** [P] closed forms: the defining sums *)
Theorem mult_table_mul_sum (m : mode) (n : nat) (t : table) (a b : seq Z) :
  cube n t -> size a = n -> size b = n ->
  mt_mul m t a b = Done (mkseq (fun k =>
     \sum_(i <- iota 0 n) \sum_(j <- iota 0 n) nth 0 a i * nth 0 b j * T3 t i j k) n).
Proof. exact (@mt_mul_closed m n t a b). Qed.
Theorem mult_table_trace_sum (n : nat) (t : table) (a : seq Z) :
  cube n t -> size a = n ->
  mt_trace t a = Done (\sum_(i <- iota 0 n) \sum_(j <- iota 0 n) nth 0 a i * T3 t j i j).
Proof. exact (@mt_trace_closed n t a). Qed.

(** [P] a table returned by [get_mult_table] for an n x n basis is n x n x n (and integral by
    construction: the integrality assertions of the code passed) *)
Theorem get_mult_table_shape (f : seq Z) (n : nat) :
  canonZ f -> size f = n.+1 -> forall b : seq (seq Qc), size b = n -> (forall i, (i < n)%N -> size (nth [::] b i) = n) ->
  forall t, get_mult_table b f = Done t -> cube n t.
Proof. exact (@table_cube f n). Qed.

(** [P] table_mul_agrees: if [get_mult_table] returned (so: the basis is invertible, products of
    basis elements have integer coordinates), [mul] on integer coordinate vectors returns the
    coordinates of the product of the two elements in Q[x]/(f) *)
Theorem table_mul_agrees (f : seq Z) (n : nat) :
  canonZ f -> size f = n.+1 -> forall b : seq (seq Qc), size b = n -> (forall i, (i < n)%N -> size (nth [::] b i) = n) ->
  forall t, get_mult_table b f = Done t ->
  forall (m : mode) (x y : seq Z), size x = n -> size y = n ->
  exists2 z, mt_mul m t x y = Done z &
    size z = n /\
    of_coords n b (map qz z) = (of_coords n b (map qz x) * of_coords n b (map qz y)) %% Fq f.
Proof. exact (@TableAgrees.table_mul_agrees f n). Qed.

(** [P] [to_z_basis_int] returns the integer coordinates of the element *)
Theorem to_z_basis_int_spec (n : nat) (b : seq (seq Qc)) :
  size b = n -> (forall i, (i < n)%N -> size (nth [::] b i) = n) ->
  forall (a : seq Qc) (r : seq Z), canonQ a -> (size a <= n)%N ->
  to_z_basis_int b a = Done r -> size r = n /\ of_coords n b (map qz r) = Poly a.
Proof. exact (@TableAgrees.to_z_basis_int_spec n b). Qed.

Example table_mul_agrees_ex :
  let f := [:: 5; 0; 1]%Z in
  let b := [:: [:: qz 1; qz 0]; [:: qz 0; qz 1]] in
  let t := [:: [:: [:: 1; 0]; [:: 0; 1]]; [:: [:: 0; 1]; [:: -5; 0]]]%Z in
  [/\ canonZ f, get_mult_table b f = Done t, cube 2 t &
      mt_mul Checked t [:: 1; 1]%Z [:: 1; -1]%Z = Done [:: 6; 0]%Z].
Proof. by split; vm_compute. Qed.


(** the table of Z[sqrt(-5)] from the model, and (1 + sqrt(-5))^{-1} = (1 - sqrt(-5)) / 6 *)
Example mult_table_sqrt_m5 :
  (do b <- singly_gen [:: 5; 0; 1]%Z (alg_new [:: 5; 0; 1]%Z); get_mult_table b [:: 5; 0; 1]%Z)
  = Done [:: [:: [:: 1; 0]; [:: 0; 1]]; [:: [:: 0; 1]; [:: -5; 0]]]%Z.
Proof. by vm_compute. Qed.

Example inv_sqrt_m5 :
  mt_inv [:: [:: [:: 1; 0]; [:: 0; 1]]; [:: [:: 0; 1]; [:: -5; 0]]]%Z [:: 1; 1]%Z = Done ([:: 1; -1]%Z, 6%Z).
Proof. by vm_compute. Qed.

(** ** norm *)
From mathcomp Require Import matrix.
From RNT.Refine Require Import MultTableNorm.

(** [P] norm_det: on an n x n x n table, [norm a] returns the determinant of the integer matrix
    [sum_i a_i T_i] (row j = coordinates of a * w_j: the multiplication matrix); the rational
    determinant computed by the code is an integer and the final [to_integer] does not truncate *)
Theorem norm_det (n : nat) (t : table) (a : seq Z) : cube n t -> size a = n ->
  mt_norm t a = Done (\det (\matrix_(j < n, k < n) \sum_(i <- iota 0 n) nth 0 a i * T3 t i j k)).
Proof. exact (@mt_norm_det n t a). Qed.

Example norm_det_ex :
  cube 2 [:: [:: [:: 1; 0]; [:: 0; 1]]; [:: [:: 0; 1]; [:: -5; 0]]]%Z /\
  mt_norm [:: [:: [:: 1; 0]; [:: 0; 1]]; [:: [:: 0; 1]; [:: -5; 0]]]%Z [:: 1; 1]%Z = Done 6%Z.
Proof. by split; vm_compute. Qed.
