(** * C18 Exact rational linear algebra (number-theory-linear: determinant, matrix::inv,
      solve_linear_system, subspace::{iim, supplement_basis, image_mod_p}, triangular::mul_inv_from_right_exact)

    Statements only; proofs are in Refine/LinAlg*.v. The model (Model/LinAlg.v) is generic over a record
    of field operations; [fopsQc] is its BigRational instance, the one the correspondence check runs.
    [qmx n m a] reads a list of rows as an n x m MathComp matrix over Qc (entries outside the stored
    shape read as 0), [qrv n b] a list as a row vector, [zmx] the same over Z; [\det] is MathComp's
    Leibniz determinant, [*m] the matrix product. [square a]: every row has [length a] entries.
    Every theorem is [P]: all inputs, no size bound. *)
From mathcomp Require Import all_ssreflect ssralg zmodp matrix mxalgebra.
From mathcomp Require Import ssrZ.
From Coq Require Import QArith Qcanon.
From RNT.Model Require Import Base Poly LinAlg.
From RNT.Refine Require Import QcField LinAlgQc LinAlgImg LinAlgMxImg LinAlgImgTotal.
Local Close Scope Z_scope.
Local Close Scope Q_scope.
Local Close Scope Qc_scope.
Local Open Scope ring_scope.

(** [qz z] is the integer z as a BigRational, [qzm] maps it over an integer matrix (examples only). *)

(** ** determinant *)

(** [P] whatever [determinant] returns is the Leibniz determinant (any list of rows; a ragged input
    that does not panic is read through [qmx]) *)
Theorem determinant_spec (a : list (list Qc)) (d : Qc) :
  determinant fopsQc a = Done d -> d = \det (qmx (length a) (length a) a).
Proof. exact (@determinant_ok a d). Qed.

(** [P] and it does return on every square matrix *)
Theorem determinant_returns (a : list (list Qc)) :
  square a -> exists d, determinant fopsQc a = Done d.
Proof. exact (@determinant_total a). Qed.

Example determinant_ex :
  square (qzm [[3; 2; 1]; [-1; 2; 2]; [-2; -3; 2]]%Z) /\
  omap this (determinant fopsQc (qzm [[3; 2; 1]; [-1; 2; 2]; [-2; -3; 2]]%Z)) = Done (33 # 1)%Q.
Proof. split; [by repeat constructor|by vm_compute]. Qed.

(** ** matrix::inv *)

(** [P] [Ok b]: b is the two-sided inverse *)
Theorem inv_spec (a b : list (list Qc)) :
  inv fopsQc a = Done (Ok b) ->
  let n := length a in qmx n n b *m qmx n n a = 1%:M /\ qmx n n a *m qmx n n b = 1%:M.
Proof. exact (@inv_ok a b). Qed.

(** [P] [Err]: the matrix is singular *)
Theorem inv_err_spec (a : list (list Qc)) (e : not_invertible) :
  inv fopsQc a = Done (Err e) -> let n := length a in \det (qmx n n a) = 0.
Proof. exact (@inv_err a e). Qed.

(** [P] a non-singular square matrix gets [Ok] (no panic, no [Err]) *)
Theorem inv_nonsingular (a : list (list Qc)) :
  square a -> let n := length a in \det (qmx n n a) != 0 -> exists b, inv fopsQc a = Done (Ok b).
Proof. exact (@inv_complete a). Qed.

(** [P] a singular square matrix gets [Err] (no panic) *)
Theorem inv_singular_spec (a : list (list Qc)) :
  square a -> let n := length a in \det (qmx n n a) = 0 -> inv fopsQc a = Done (Err MatrixNotInvertible).
Proof. exact (@inv_singular a). Qed.

Example inv_ex_ok :
  square (qzm [[5; 2]; [2; 1]]%Z) /\ exists b, inv fopsQc (qzm [[5; 2]; [2; 1]]%Z) = Done (Ok b).
Proof. split; [by repeat constructor|by eexists; vm_compute]. Qed.
Example inv_ex_err : inv fopsQc (qzm [[1; 2]; [2; 4]]%Z) = Done (Err MatrixNotInvertible).
Proof. by vm_compute. Qed.

(** ** solve_linear_system: solves x * a = b *)

(** [P] [Ok x]: x * a = b *)
Theorem solve_spec (a : list (list Qc)) (b x : list Qc) :
  solve_linear_system fopsQc a b = Done (Ok x) ->
  let n := length a in qrv n x *m qmx n n a = qrv n b.
Proof. exact (@solve_ok a b x). Qed.

(** [P] [Err]: the matrix is singular *)
Theorem solve_err_spec (a : list (list Qc)) (b : list Qc) (e : not_invertible) :
  solve_linear_system fopsQc a b = Done (Err e) -> let n := length a in \det (qmx n n a) = 0.
Proof. exact (@solve_err a b e). Qed.

(** [P] a non-singular square system gets [Ok] (no panic, no [Err]) *)
Theorem solve_nonsingular (a : list (list Qc)) (b : list Qc) :
  square a -> length b = length a -> let n := length a in \det (qmx n n a) != 0 ->
  exists x, solve_linear_system fopsQc a b = Done (Ok x).
Proof. exact (@solve_complete a b). Qed.

(** [P] a singular square system gets [Err] (no panic, never a wrong [Ok]) *)
Theorem solve_singular_spec (a : list (list Qc)) (b : list Qc) :
  square a -> length b = length a -> let n := length a in \det (qmx n n a) = 0 ->
  solve_linear_system fopsQc a b = Done (Err MatrixNotInvertible).
Proof. exact (@solve_singular a b). Qed.

Example solve_ex :
  exists x, solve_linear_system fopsQc (qzm [[1; 2]; [3; 4]]%Z) [:: qz 5; qz 8] = Done (Ok x)
            /\ List.map this x = [:: (2 # 1)%Q; (1 # 1)%Q].
Proof. by eexists; split; vm_compute. Qed.

(** ** triangular::mul_inv_from_right_exact *)

(** [P] [Ok c]: c * b = a over the integers *)
Theorem mul_inv_from_right_exact_spec (a b c : list (list Z)) :
  mul_inv_from_right_exact a b = Done (Ok c) ->
  let n := length a in zmx n n c *m zmx n n b = zmx n n a.
Proof. exact (@mul_inv_ok a b c). Qed.

(** [P] [Err]: b is singular *)
Theorem mul_inv_from_right_exact_err (a b : list (list Z)) (e : not_invertible) :
  mul_inv_from_right_exact a b = Done (Err e) -> let n := length a in \det (zmx n n b) = 0.
Proof. exact (@mul_inv_err a b e). Qed.

(** [P] on square n x n integer input: [Err] when b is singular; [Ok] whenever b is non-singular and an
    integer C with C * b = a exists (the remaining case, no integer quotient, is the [assert!]) *)
Theorem mul_inv_from_right_exact_complete (a b : list (list Z)) :
  let n := length a in
  zrect n a -> zrect n b -> length b = n ->
  (\det (zmx n n b) = 0 -> mul_inv_from_right_exact a b = Done (Err MatrixNotInvertible)) /\
  (\det (zmx n n b) != 0 -> (exists C : 'M[Z]_n, C *m zmx n n b = zmx n n a) ->
   exists c, mul_inv_from_right_exact a b = Done (Ok c)).
Proof. exact (@mul_inv_complete a b). Qed.

Example mul_inv_ex :
  mul_inv_from_right_exact [[10; 0]; [0; -2]]%Z [[10; 0]; [5; 1]]%Z = Done (Ok [[1; 0]; [1; -2]]%Z).
Proof. by vm_compute. Qed.

(** ** subspace::iim (inverse image): [row_free M] = the rows of M are linearly independent *)

(** [P] [Ok x]: x * M = V (and M has independent rows); [Err LinearlyDependent]: the rows of M are
    dependent; [Err NotInImage]: the rows of M are independent and no X has X * M = V.
    (m = number of columns of the first row of M, as in the code.) *)
Theorem iim_spec (mmat vmat : list (list Qc)) (res : result iim_error (list (list Qc))) :
  iim fopsQc mmat vmat = Done res ->
  let n := length mmat in let m := length (List.nth 0 mmat [::]) in let r := length vmat in
  let M := qmx n m mmat in let V := qmx r m vmat in
  match res with
  | Ok x => row_free M /\ qmx r n x *m M = V
  | Err LinearlyDependent => ~~ row_free M
  | Err NotInImage => row_free M /\ forall X : 'M_(r, n), X *m M <> V
  end.
Proof. exact (@iim_correct mmat vmat res). Qed.

(** [P] on rectangular input (every row of M and V has m entries, at least one row each) [iim] returns
    without panic, and: [Ok] when the rows of M are independent and V = X * M has a solution,
    [Err LinearlyDependent] when the rows are dependent, [Err NotInImage] when they are independent
    and there is no solution *)
Theorem iim_complete_spec (mmat vmat : list (list Qc)) :
  let n := length mmat in let m := length (List.nth 0 mmat [::]) in let r := length vmat in
  (0 < n)%coq_nat -> (0 < r)%coq_nat -> rect m mmat -> rect m vmat ->
  let M := qmx n m mmat in let V := qmx r m vmat in
  [/\ row_free M -> (exists X : 'M_(r, n), X *m M = V) -> exists x, iim fopsQc mmat vmat = Done (Ok x),
      ~~ row_free M -> iim fopsQc mmat vmat = Done (Err LinearlyDependent)
    & row_free M -> (forall X : 'M_(r, n), X *m M <> V) -> iim fopsQc mmat vmat = Done (Err NotInImage)].
Proof. exact (@iim_complete mmat vmat). Qed.

Example iim_ex_ok :
  exists x, iim fopsQc (qzm [[1; 0; 1]; [2; 0; 3]]%Z) (qzm [[1; 0; -1]]%Z) = Done (Ok x)
            /\ List.map (List.map this) x = [:: [:: (5 # 1)%Q; (-2 # 1)%Q]].
Proof. by eexists; split; vm_compute. Qed.
Example iim_ex_dep : iim fopsQc (qzm [[1; 0]; [2; 0]]%Z) (qzm [[3; 1]]%Z) = Done (Err LinearlyDependent).
Proof. by vm_compute. Qed.
Example iim_ex_notin : iim fopsQc (qzm [[1; 0; 1]; [2; 0; 3]]%Z) (qzm [[3; 1; 4]]%Z) = Done (Err NotInImage).
Proof. by vm_compute. Qed.

(** ** subspace::supplement_basis (k = number of rows, n = number of columns of the first row) *)

(** [P] [Ok B]: B has n rows, its first k rows are the input, it is invertible (and the input rows are
    independent); [Err]: the input rows are dependent (rank < k) *)
Theorem supplement_spec (mmat : list (list Qc)) (res : result supplement_error (list (list Qc))) :
  supplement_basis fopsQc mmat = Done res ->
  let k := length mmat in let n := length (List.nth 0 mmat [::]) in
  match res with
  | Ok B => [/\ length B = n, List.firstn k B = mmat, \det (qmx n n B) != 0 & row_free (qmx k n mmat)]
  | Err _ => ~~ row_free (qmx k n mmat)
  end.
Proof. exact (@supplement_correct mmat res). Qed.

(** [P] on a rectangular k x n input, k >= 1: no panic; [Ok] when the rows are independent (rank k),
    [Err] otherwise *)
Theorem supplement_complete_spec (mmat : list (list Qc)) :
  let k := length mmat in let n := length (List.nth 0 mmat [::]) in
  (0 < k)%coq_nat -> rect n mmat ->
  (row_free (qmx k n mmat) -> exists B, supplement_basis fopsQc mmat = Done (Ok B)) /\
  (~~ row_free (qmx k n mmat) -> supplement_basis fopsQc mmat = Done (Err InsufficientRank)).
Proof. exact (@supplement_complete mmat). Qed.

Example supplement_ex_ok :
  exists B, supplement_basis fopsQc (qzm [[0; 0; 1]; [0; 2; 3]]%Z) = Done (Ok B)
            /\ List.map (List.map this) B
               = [:: [:: (0 # 1)%Q; (0 # 1)%Q; (1 # 1)%Q]; [:: (0 # 1)%Q; (2 # 1)%Q; (3 # 1)%Q];
                     [:: (1 # 1)%Q; (0 # 1)%Q; (0 # 1)%Q]].
Proof. by eexists; split; vm_compute. Qed.
Example supplement_ex_err :
  supplement_basis fopsQc (qzm [[1; 0; 1]; [2; 0; 2]]%Z) = Done (Err InsufficientRank).
Proof. by vm_compute. Qed.

(** ** subspace::image_mod_p (p prime, entries reduced to [0, p) as the code's zero test requires)

    [fmx p m d a] reads a list of integer rows as a d x m matrix over the field 'F_p; [zent a s q] is
    the integer entry a[s][q]. *)

(** [P] the output rows are rows of the input, they are linearly independent modulo p and span the same
    space modulo p as all the input rows: a basis of the image taken from the input rows *)
Theorem image_mod_p_spec (p' : nat) (M out : list (list Z)) :
  prime p' ->
  let n := length M in let m := length (List.nth 0 M [::]) in
  (forall s q : nat, s < n -> q < m -> (0 <= zent M s q < Z.of_nat p')%Z) ->
  image_mod_p M (Z.of_nat p') = Done out ->
  [/\ List.Forall (fun r => List.In r M) out,
      row_free (fmx p' m (length out) out)
    & (fmx p' m n M :=: fmx p' m (length out) out)%MS].
Proof. exact (@image_mod_p_correct p' M out). Qed.

(** [P] no panic (indexing, division, the routine's own [assert_eq!]) on any rectangular matrix with at
    least one row and any non-zero modulus *)
Theorem image_mod_p_returns (M : list (list Z)) (p : Z) :
  p <> 0%Z -> (0 < length M)%coq_nat ->
  List.Forall (fun r => length r = length (List.nth 0 M [::])) M ->
  exists out, image_mod_p M p = Done out.
Proof. exact (@image_mod_p_total M p). Qed.

Example image_mod_p_ex :
  prime 5 /\
  (forall s q : nat, s < 3 -> q < 3 ->
     (0 <= zent [[1; 3; 2]; [2; 1; 3]; [0; 0; 1]]%Z s q < Z.of_nat 5)%Z) /\
  image_mod_p [[1; 3; 2]; [2; 1; 3]; [0; 0; 1]]%Z (Z.of_nat 5) = Done [[1; 3; 2]; [2; 1; 3]]%Z.
Proof.
split=> //; split; last by vm_compute.
by move=> [|[|[|s]]] // [|[|[|q]]] // _ _; vm_compute; split=> // [[]].
Qed.
