(** C18, first version: the model runs; theorems follow in Refine/LinAlg*.v. *)
From RNT.Model Require Import Base Poly LinAlg.
From Coq Require Import QArith Qcanon.

Definition q (z : Z) : Qc := Q2Qc (inject_Z z).

Example determinant_runs :
  omap this (determinant fopsQc [[q 3; q 2; q 1]; [q (-1); q 2; q 2]; [q (-2); q (-3); q 2]])
  = Done (33 # 1)%Q.
Proof. vm_compute. reflexivity. Qed.

Theorem determinant_empty : omap this (determinant fopsQc []) = Done (1 # 1)%Q.
Proof. reflexivity. Qed.
