(** C10: gcd in Z[x] (statements only; proofs in Refine/ResProofs*.v). *)
From RNT.Model Require Import Base Poly Resultant.
From RNT.Refine Require Import ResProofs ResProofs2 ResProofs3.
Open Scope Z_scope.

(** [P] gcd(0, g) = g verbatim (sign and content unchanged; g = 0 gives 0). *)
Theorem gcd_zero_l : forall g, resultant_gcd [] g = (true, Done g).
Proof. exact ResProofs.resultant_gcd_zero_l. Qed.

(** [P] gcd(f, 0) for canonical f <> 0: f if lc f > 0, -f otherwise (= |cont f| * pp f). *)
Theorem gcd_zero_r : forall f, f <> [] -> canonb f = true ->
  resultant_gcd f [] = (true, Done (if 0 <? zlast f then f else pneg opsZ f)).
Proof. exact ResProofs3.resultant_gcd_zero_r. Qed.
Example zero_r_ex : resultant_gcd [6; -4; -10] [] = (true, Done [-6; 4; 10]) /\ canonb [6; -4; -10] = true.
Proof. split; vm_compute; reflexivity. Qed.

(** [P] enough fuel for every pair of coefficient lists. *)
Theorem gcd_no_outoffuel : forall f g, snd (resultant_gcd f g) <> OutOfFuel.
Proof. exact ResProofs.resultant_gcd_no_outoffuel. Qed.

(** [C] canonical inputs, flag true => a polynomial is returned (no division by zero).
    Full statement (not proved, sub-resultant structure theorem): the flag is always true. *)
Theorem gcd_flag_no_panic_partial : forall f g o,
  canonb f = true -> canonb g = true ->
  resultant_gcd f g = (true, o) -> exists d, o = Done d.
Proof. exact ResProofs2.resultant_gcd_flag_no_panic. Qed.
Example flag_ex :
  let f := [-2; -3; 0; 2; 1] in let g := [-4; -2; 4; 2] in   (* (x^2-... ) common factor 2x... *)
  canonb f = true /\ canonb g = true /\ fst (resultant_gcd f g) = true.
Proof. repeat split; vm_compute; reflexivity. Qed.

(** ** Specification level (MathComp [gcdp] over the integral domain Z; [p %= q] means equal up to non-zero
    constant factors, i.e. associated over Q). *)
From mathcomp Require Import all_ssreflect ssralg poly polydiv ssrZ.
From RNT.Refine Require Import PolyRefine ResGcd.
Import GRing.Theory Pdiv.Idomain.
Local Open Scope ring_scope.

(** [C] [gcd_partial]: canonical inputs, f <> 0 (g may be 0). If the run returns [d] with exactness flag
    true, then d is associated over Q to gcd(f, g), is canonical, and has positive leading coefficient.
    Full statement (not proved): the flag is always true (sub-resultant structure theorem); d | f and
    d | g in Z[x] with coprime cofactors and coprime cofactor contents (needs Gauss's lemma on top of
    this theorem); deg d = deg f + deg g - rank Sylvester(f, g). *)
Theorem gcd_partial : forall (f g : seq Z) d,
  canonb f = true -> canonb g = true -> f <> [::] ->
  resultant_gcd f g = (true, Done d) ->
  [/\ Poly d %= gcdp (Poly f) (Poly g), (0 < lead_coef (Poly d))%Z & canonb d = true].
Proof. exact ResGcd.gcd_partial. Qed.
Example gcd_partial_ex :
  let f := [:: -3; -6; 1; 2]%Z in let g := [:: -4; -10; -4]%Z in
  canonb f = true /\ canonb g = true /\ resultant_gcd f g = (true, Done [:: 1; 2]%Z).
Proof. repeat split; vm_compute; reflexivity. Qed.

(** ** Second wave: the exactness flag is always true (sub-resultant structure theorem, see Props/C04.v). *)
From RNT.Refine Require Import SubresFlag SubresSpec.

(** [P] every truncating division of the run of [resultant_gcd] on canonical inputs has remainder zero. *)
Theorem gcd_flag_true : forall (f g : seq Z),
  canonb f = true -> canonb g = true -> fst (resultant_gcd f g) = true.
Proof. exact SubresFlag.gcd_flag_true. Qed.

(** [P] [resultant_gcd] returns a polynomial for all canonical inputs (no division by zero). *)
Theorem gcd_total : forall (f g : seq Z),
  canonb f = true -> canonb g = true -> exists d, resultant_gcd f g = (true, Done d).
Proof. exact SubresSpec.gcd_total. Qed.

(** [P] [gcd_spec]: for all canonical inputs with f <> 0 the result is associated over Q to gcd(f, g), is
    canonical and has positive leading coefficient (no flag hypothesis). *)
Theorem gcd_spec : forall (f g : seq Z),
  canonb f = true -> canonb g = true -> f <> [::] ->
  exists d, resultant_gcd f g = (true, Done d) /\
    [/\ Poly d %= gcdp (Poly f) (Poly g), (0 < lead_coef (Poly d))%Z & canonb d = true].
Proof. exact SubresSpec.gcd_spec. Qed.
Example gcd_spec_ex :
  let f := [:: -3; -6; 0; 0; 1; 2]%Z in let g := [:: -4; -10; -4]%Z in   (* degree gap 3 *)
  canonb f = true /\ canonb g = true /\ resultant_gcd f g = (true, Done [:: 1; 2]%Z).
Proof. repeat split; vm_compute; reflexivity. Qed.

(** [P] [gcd_divides]: for all canonical inputs with f <> 0, the polynomial d returned divides f and g exactly
    in Z[x] (cofactors qf, qg in Z[x]), the cofactors have no common root (coprime over Q, MathComp [coprimep])
    and coprime contents (no integer other than +-1 divides all coefficients of both). Proved with Gauss's
    lemma for {poly Z} (SubresGauss.gauss_dvd, transported from intdiv.zcontentsM) on top of [gcd_spec]. *)
From RNT.Refine Require Import SubresGaussZ SubresGauss SubresGcdDiv.
Theorem gcd_divides : forall (f g : seq Z),
  canonb f = true -> canonb g = true -> f <> [::] ->
  exists (d : seq Z) (qf qg : {poly Z}),
    [/\ resultant_gcd f g = (true, Done d), Poly f = qf * Poly d, Poly g = qg * Poly d, coprimep qf qg
      & forall e : Z, (forall i, Z.divide e qf`_i) -> (forall i, Z.divide e qg`_i) -> Z.divide e 1].
Proof. exact SubresGcdDiv.gcd_divides. Qed.
Example gcd_divides_ex :      (* f = 6 (x+1)(2x+1)(x-3), g = 4 (2x+1)(x^2+1): d = 2 (2x+1) *)
  let f := [:: -18; -48; -18; 12]%Z in let g := [:: 4; 8; 4; 8]%Z in
  canonb f = true /\ canonb g = true /\ resultant_gcd f g = (true, Done [:: 2; 4]%Z).
Proof. repeat split; vm_compute; reflexivity. Qed.

(** [P] Gauss's lemma over Z[x]: a primitive P that divides F over Q divides it in Z[x]. *)
Theorem gauss_dvd : forall (F Q P : {poly Z}) (c : Z), c != 0 -> zprim P -> c *: F = Q * P ->
  exists Q', F = Q' * P.
Proof. exact SubresGauss.gauss_dvd. Qed.

(** [P] [gcd_greatest]: "so every common divisor divides d": for all canonical inputs with f <> 0, every
    h in Z[x] dividing both f and g in Z[x] divides the returned d in Z[x]. *)
Theorem gcd_greatest : forall (f g : seq Z),
  canonb f = true -> canonb g = true -> f <> [::] ->
  exists d : seq Z, resultant_gcd f g = (true, Done d) /\
    forall h : {poly Z}, (exists u, Poly f = u * h) -> (exists v, Poly g = v * h) ->
      exists w, Poly d = w * h.
Proof. exact SubresGcdDiv.gcd_greatest. Qed.

(** [P] the abstract form: D is a greatest common divisor of F = qf D and G = qg D in Z[x] as soon as the
    cofactors are coprime polynomials with coprime contents (the conclusion of [gcd_divides]). *)
Theorem gcd_greatest_Z : forall (F G D qf qg h : {poly Z}),
  D != 0 -> F = qf * D -> G = qg * D -> coprimep qf qg ->
  (forall e : Z, (forall i, Z.divide e qf`_i) -> (forall i, Z.divide e qg`_i) -> Z.divide e 1) ->
  (exists u, F = u * h) -> (exists v, G = v * h) -> exists w, D = w * h.
Proof. exact SubresGauss.gcd_greatest_Z. Qed.

(** ** The degree formula (SubresRank.v, SubresGcdDeg.v) *)
From mathcomp Require Import ssrint rat matrix mxalgebra mxpoly.
From RNT.Refine Require Import SubresRank SubresGcdDeg.

(** [P] over any field the Sylvester matrix of non-zero p, q has rank deg p + deg q - deg gcd(p, q). *)
Theorem rank_Sylvester : forall (K : fieldType) (p q : {poly K}), p != 0 -> q != 0 ->
  \rank (Sylvester_mx p q) = ((size p).-1 + (size q).-1 - (size (gcdp p q)).-1)%N.
Proof. exact SubresRank.rank_Sylvester. Qed.

(** [P] [gcd_degree]: "its degree equals deg f + deg g minus the rank of the Sylvester matrix": for all canonical
    non-zero inputs, with the Sylvester matrix of the inputs embedded in Q[x] ([ZtoQ z] is the rational z). *)
Theorem gcd_degree : forall (f g : seq Z),
  canonb f = true -> canonb g = true -> f <> [::] -> g <> [::] ->
  exists d : seq Z, resultant_gcd f g = (true, Done d) /\
    (size d).-1 = ((size f).-1 + (size g).-1
                   - \rank (Sylvester_mx (map_poly ZtoQ (Poly f)) (map_poly ZtoQ (Poly g))))%N.
Proof. exact SubresGcdDeg.gcd_degree. Qed.
(** non-vacuity: the hypotheses are those of [gcd_divides], see [gcd_divides_ex] (there deg d = 1 = 3 + 3 - 5). *)
