(** C10: gcd in Z[x] (statements only; proofs in Refine/ResProofs*.v). *)
From RNT.Model Require Import Base Poly Resultant.
From RNT.Refine Require Import ResProofs.
Open Scope Z_scope.

(** [P] gcd(0, g) = g verbatim (sign and content unchanged; g = 0 gives 0). *)
Theorem gcd_zero_l : forall g, resultant_gcd [] g = (true, Done g).
Proof. exact ResProofs.resultant_gcd_zero_l. Qed.
