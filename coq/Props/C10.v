(** C10: gcd in Z[x] (statements only; proofs in Refine/ResProofs*.v). *)
From RNT.Model Require Import Base Poly Resultant.
From RNT.Refine Require Import ResProofs ResProofs2 ResProofs3.
Open Scope Z_scope.

(** [P] gcd(0, g) = g verbatim (sign and content unchanged; g = 0 gives 0). *)
Theorem gcd_zero_l : forall g, resultant_gcd [] g = (true, Done g).
Proof. exact ResProofs.resultant_gcd_zero_l. Qed.

(** [P] gcd(f, 0) for canonical f <> 0: f if lc f > 0, -f otherwise (= |cont f| * pp f). *)
Theorem gcd_zero_r : forall f, f <> [] -> canonb f = true ->
  resultant_gcd f [] = (true, Done (if 0 <? zlast f then f else pneg opsZ f)).
Proof. exact ResProofs3.resultant_gcd_zero_r. Qed.
Example zero_r_ex : resultant_gcd [6; -4; -10] [] = (true, Done [-6; 4; 10]) /\ canonb [6; -4; -10] = true.
Proof. split; vm_compute; reflexivity. Qed.

(** [P] enough fuel for every pair of coefficient lists. *)
Theorem gcd_no_outoffuel : forall f g, snd (resultant_gcd f g) <> OutOfFuel.
Proof. exact ResProofs.resultant_gcd_no_outoffuel. Qed.

(** [C] canonical inputs, flag true => a polynomial is returned (no division by zero).
    Full statement (not proved, sub-resultant structure theorem): the flag is always true. *)
Theorem gcd_flag_no_panic_partial : forall f g o,
  canonb f = true -> canonb g = true ->
  resultant_gcd f g = (true, o) -> exists d, o = Done d.
Proof. exact ResProofs2.resultant_gcd_flag_no_panic. Qed.
Example flag_ex :
  let f := [-2; -3; 0; 2; 1] in let g := [-4; -2; 4; 2] in   (* (x^2-... ) common factor 2x... *)
  canonb f = true /\ canonb g = true /\ fst (resultant_gcd f g) = true.
Proof. repeat split; vm_compute; reflexivity. Qed.

(** ** Specification level (MathComp [gcdp] over the integral domain Z; [p %= q] means equal up to non-zero
    constant factors, i.e. associated over Q). *)
From mathcomp Require Import all_ssreflect ssralg poly polydiv ssrZ.
From RNT.Refine Require Import PolyRefine ResGcd.
Import GRing.Theory Pdiv.Idomain.
Local Open Scope ring_scope.

(** [C] [gcd_partial]: canonical inputs, f <> 0 (g may be 0). If the run returns [d] with exactness flag
    true, then d is associated over Q to gcd(f, g), is canonical, and has positive leading coefficient.
    Full statement (not proved): the flag is always true (sub-resultant structure theorem); d | f and
    d | g in Z[x] with coprime cofactors and coprime cofactor contents (needs Gauss's lemma on top of
    this theorem); deg d = deg f + deg g - rank Sylvester(f, g). *)
Theorem gcd_partial : forall (f g : seq Z) d,
  canonb f = true -> canonb g = true -> f <> [::] ->
  resultant_gcd f g = (true, Done d) ->
  [/\ Poly d %= gcdp (Poly f) (Poly g), (0 < lead_coef (Poly d))%Z & canonb d = true].
Proof. exact ResGcd.gcd_partial. Qed.
Example gcd_partial_ex :
  let f := [:: -3; -6; 1; 2]%Z in let g := [:: -4; -10; -4]%Z in
  canonb f = true /\ canonb g = true /\ resultant_gcd f g = (true, Done [:: 1; 2]%Z).
Proof. repeat split; vm_compute; reflexivity. Qed.
