(** * C09: polynomial arithmetic is exact ring arithmetic on a canonical representation.

    Specification language: MathComp. A coefficient list [s] (lowest degree first) denotes
    [Poly s : {poly R}]; it is canonical when [canon s] ([last 1 s != 0]: no trailing zero;
    the empty list is the zero polynomial). [ops_of ofZ] is the record of ring operations of a
    MathComp ring ([ofZ] interprets [Int::from(i32)]); [opsZ = ops_of id] (BigInt) and
    [opsQc = ops_of Qc_ofZ] (BigRational) hold by conversion, so every generic theorem below
    applies verbatim to the operations that the correspondence check runs.
    All theorems are [P]: every input, no size bound. *)
From RNT.Model Require Import Base Poly.
From Coq Require Import QArith Qcanon.
From mathcomp Require Import all_ssreflect ssralg poly.
From mathcomp Require Import ssrZ.
From RNT.Refine Require Import QcRing PolyRefine PolyDiv PolyZ PolyQ.
Set Implicit Arguments.
Unset Strict Implicit.
Import GRing.Theory.
Local Open Scope ring_scope.

(** ** The model's operation records are MathComp's ring operations *)
Theorem opsZ_is_ring_ops : opsZ = ops_of (R := [ringType of Z]) (fun z => z).
Proof. exact opsZ_eq. Qed.

(** [Qc] carries a MathComp field structure whose operations are Qcplus, Qcmult, ... (QcRing.v) *)
Theorem opsQc_is_ring_ops : opsQc = ops_of (R := [ringType of Qc]) Qc_ofZ.
Proof. exact opsQc_eq. Qed.
Theorem qp_ofZ_nat (n : nat) : Qc_ofZ (Z.of_nat n) = n%:R.
Proof. exact (Qc_ofZ_nat n). Qed.

Section AnyRing.
Variable R : ringType.
Variable ofZ : Z -> R.
Hypothesis ofZ_nat : forall n : nat, ofZ (Z.of_nat n) = n%:R.
Let O := ops_of ofZ.
Implicit Types (s a b c : seq R) (x k : R).

(** ** [P] canonical representation *)
Theorem from_raw_canonical s : canon (from_raw O s).
Proof. exact (strip_canon ofZ s). Qed.
Theorem from_raw_normal_form s : from_raw O s = Poly s :> seq R.
Proof. exact (strip_Poly ofZ s). Qed.
Theorem from_raw_id s : canon s -> from_raw O s = s.
Proof. exact (@strip_id _ ofZ s). Qed.
Theorem from_raw_denotation s : Poly (from_raw O s) = Poly s.
Proof. exact (Poly_strip ofZ s). Qed.
(** equal polynomials are stored equal *)
Theorem Poly_injective_on_canonical a b : canon a -> canon b -> Poly a = Poly b -> a = b.
Proof. exact (@Poly_inj_canon _ a b). Qed.
Theorem deg_spec s : canon s ->
  pdeg s = if Poly s == 0 then usize_max else (Z.of_nat (size (Poly s)) - 1)%Z.
Proof. exact (@pdeg_spec _ s). Qed.
Theorem coef_at_spec s i : coef_at O s i = (Poly s)`_i.
Proof. exact (coef_at_Poly ofZ s i). Qed.

Theorem add_canonical a b : canon a -> canon b -> canon (padd O a b).
Proof. exact (@canon_padd _ ofZ a b). Qed.
Theorem sub_canonical a b : canon a -> canon b -> canon (psub O a b).
Proof. exact (@canon_psub _ ofZ a b). Qed.
Theorem neg_canonical a : canon a -> canon (pneg O a).
Proof. exact (@canon_pneg _ ofZ a). Qed.
Theorem mul_canonical a b : canon (pmul O a b).
Proof. exact (canon_pmul ofZ a b). Qed.
Theorem diff_canonical a : canon (pdiff O a).
Proof. exact (canon_pdiff ofZ a). Qed.

(** ** [P] refinement (arbitrary lists, canonical or not) *)
Theorem add_refines a b : Poly (padd O a b) = Poly a + Poly b.
Proof. exact (Poly_padd ofZ a b). Qed.
Theorem sub_refines a b : Poly (psub O a b) = Poly a - Poly b.
Proof. exact (Poly_psub ofZ a b). Qed.
Theorem neg_refines a : Poly (pneg O a) = - Poly a.
Proof. exact (Poly_pneg ofZ a). Qed.
Theorem mul_refines a b : Poly (pmul O a b) = Poly a * Poly b.
Proof. exact (Poly_pmul ofZ a b). Qed.
Theorem diff_refines a : Poly (pdiff O a) = (Poly a)^`().
Proof. exact (Poly_pdiff ofZ_nat a). Qed.

(** ** [P] ring laws as equalities of the stored vectors *)
Theorem add_comm a b : canon a -> canon b -> padd O a b = padd O b a.
Proof. exact (@padd_comm _ ofZ a b). Qed.
Theorem add_assoc a b c : canon a -> canon b -> canon c ->
  padd O a (padd O b c) = padd O (padd O a b) c.
Proof. exact (@padd_assoc _ ofZ a b c). Qed.
Theorem add_zero_l a : padd O [::] a = a.
Proof. exact (padd_0l ofZ a). Qed.
Theorem add_zero_r a : padd O a [::] = a.
Proof. exact (padd_0r ofZ a). Qed.
Theorem add_neg a : canon a -> padd O (pneg O a) a = [::].
Proof. exact (@padd_negl _ ofZ a). Qed.
Theorem sub_add_neg a b : canon a -> canon b -> psub O a b = padd O a (pneg O b).
Proof. exact (@psub_addN _ ofZ a b). Qed.
Theorem mul_assoc a b c : pmul O a (pmul O b c) = pmul O (pmul O a b) c.
Proof. exact (pmul_assoc ofZ a b c). Qed.
Theorem mul_one_l a : canon a -> pmul O [:: 1] a = a.
Proof. exact (@pmul_1l _ ofZ a). Qed.
Theorem mul_one_r a : canon a -> pmul O a [:: 1] = a.
Proof. exact (@pmul_1r _ ofZ a). Qed.
Theorem mul_add_distr_l a b c : canon a -> canon b -> canon c ->
  pmul O (padd O a b) c = padd O (pmul O a c) (pmul O b c).
Proof. exact (@pmul_addl _ ofZ a b c). Qed.
Theorem mul_add_distr_r a b c : canon a -> canon b -> canon c ->
  pmul O a (padd O b c) = padd O (pmul O a b) (pmul O a c).
Proof. exact (@pmul_addr _ ofZ a b c). Qed.

(** ** [P] evaluation *)
Theorem of_is_horner a x : pof O a x = (Poly a).[x].
Proof. exact (pof_horner ofZ a x). Qed.
Theorem of_zero x : pof O [::] x = 0.
Proof. exact (pof_nil ofZ x). Qed.
Theorem of_add a b x : pof O (padd O a b) x = pof O a x + pof O b x.
Proof. exact (pof_padd ofZ a b x). Qed.
Theorem of_sub a b x : pof O (psub O a b) x = pof O a x - pof O b x.
Proof. exact (pof_psub ofZ a b x). Qed.
Theorem of_neg a x : pof O (pneg O a) x = - pof O a x.
Proof. exact (pof_pneg ofZ a x). Qed.
Theorem of_const k x : pof O [:: k] x = k.
Proof. exact (pof_const ofZ k x). Qed.

(** ** [P] product rule *)
Theorem product_rule a b :
  pdiff O (pmul O a b) = padd O (pmul O (pdiff O a) b) (pmul O a (pdiff O b)).
Proof. exact (pdiff_pmul ofZ_nat a b). Qed.
Theorem diff_add a b : canon a -> canon b ->
  pdiff O (padd O a b) = padd O (pdiff O a) (pdiff O b).
Proof. exact (@pdiff_padd _ ofZ ofZ_nat a b). Qed.
End AnyRing.

Section AnyComRing.
Variable R : comRingType.
Variable ofZ : Z -> R.
Let O := ops_of ofZ.
Theorem mul_comm (a b : seq R) : pmul O a b = pmul O b a.
Proof. exact (pmul_comm ofZ a b). Qed.
Theorem of_mul (a b : seq R) x : pof O (pmul O a b) x = pof O a x * pof O b x.
Proof. exact (pof_pmul ofZ a b x). Qed.
End AnyComRing.

(** ** Instances at BigInt, on the functions the correspondence check runs *)
Theorem zp_ofZ_nat (n : nat) : Z.of_nat n = n%:R.
Proof. exact (ofZ_natZ n). Qed.
Theorem zp_add_refines (a b : seq Z) : Poly (padd opsZ a b) = Poly a + Poly b.
Proof. exact (Poly_padd _ a b). Qed.
Theorem zp_mul_refines (a b : seq Z) : Poly (pmul opsZ a b) = Poly a * Poly b.
Proof. exact (Poly_pmul _ a b). Qed.
Theorem zp_mul_comm (a b : seq Z) : pmul opsZ a b = pmul opsZ b a.
Proof. exact (pmul_comm _ a b). Qed.
Theorem zp_of_mul (a b : seq Z) (x : Z) : pof opsZ (pmul opsZ a b) x = (pof opsZ a x * pof opsZ b x)%Z.
Proof. exact (pof_pmul _ a b x). Qed.
Theorem zp_of_add (a b : seq Z) (x : Z) : pof opsZ (padd opsZ a b) x = (pof opsZ a x + pof opsZ b x)%Z.
Proof. exact (pof_padd _ a b x). Qed.
Theorem zp_product_rule (a b : seq Z) :
  pdiff opsZ (pmul opsZ a b) = padd opsZ (pmul opsZ (pdiff opsZ a) b) (pmul opsZ a (pdiff opsZ b)).
Proof. exact (pdiff_pmul ofZ_natZ a b). Qed.

Example ex_canon : canonZ [:: 1; 0; -2]%Z && ~~ canonZ [:: 1; 0]%Z. Proof. by vm_compute. Qed.
Example ex_from_raw : from_raw opsZ [:: 1; 0; -2; 0; 0]%Z = [:: 1; 0; -2]%Z. Proof. by vm_compute. Qed.
Example ex_add_cancel : padd opsZ [:: 1; 2; 3]%Z [:: 1; -2; -3]%Z = [:: 2]%Z. Proof. by vm_compute. Qed.
Example ex_sub_self : psub opsZ [:: 1; 2; 3]%Z [:: 1; 2; 3]%Z = [::]. Proof. by vm_compute. Qed.
Example ex_mul : pmul opsZ [:: 1; 1; 1]%Z [:: -1; 1]%Z = [:: -1; 0; 0; 1]%Z. Proof. by vm_compute. Qed.
Example ex_of : pof opsZ [:: 1; 2; 3]%Z 2%Z = 17%Z. Proof. by vm_compute. Qed.
Example ex_diff : pdiff opsZ [:: 5; 1; 0; 4]%Z = [:: 1; 0; 12]%Z. Proof. by vm_compute. Qed.
Example ex_product_rule :
  pdiff opsZ (pmul opsZ [:: 1; 2]%Z [:: 3; 0; 1]%Z) = [:: 6; 2; 6]%Z
  /\ padd opsZ (pmul opsZ (pdiff opsZ [:: 1; 2]%Z) [:: 3; 0; 1]%Z) (pmul opsZ [:: 1; 2]%Z (pdiff opsZ [:: 3; 0; 1]%Z)) = [:: 6; 2; 6]%Z.
Proof. by vm_compute. Qed.
Example ex_ring_laws :
  let a := [:: 1; -2]%Z in let b := [:: 0; 3; 1]%Z in let c := [:: 5]%Z in
  [/\ pmul opsZ a b = pmul opsZ b a, pmul opsZ a (pmul opsZ b c) = pmul opsZ (pmul opsZ a b) c,
      pmul opsZ (padd opsZ a b) c = padd opsZ (pmul opsZ a c) (pmul opsZ b c) & pmul opsZ a b = [:: 0; 3; -5; -2]%Z].
Proof. by vm_compute. Qed.
Example ex_of_hom :
  pof opsZ (pmul opsZ [:: 1; -2]%Z [:: 0; 3; 1]%Z) 3%Z = (pof opsZ [:: 1; -2]%Z 3 * pof opsZ [:: 0; 3; 1]%Z 3)%Z
  /\ pof opsZ (pmul opsZ [:: 1; -2]%Z [:: 0; 3; 1]%Z) 3%Z = (-90)%Z /\ pof opsZ [::] 7%Z = 0%Z.
Proof. by vm_compute. Qed.
Example ex_deg : pdeg ([::] : seq Z) = usize_max /\ pdeg [:: 1; 2]%Z = 1%Z. Proof. by vm_compute. Qed.

(** ** [P] pseudo-division over Z (polynomial.rs:324-353) *)
Theorem pseudo_div_rem_spec (a b q r : seq Z) :
  canonZ a -> canonZ b -> b != [::] -> (size b <= size a)%N ->
  pseudo_div_rem a b = (q, r) ->
  [/\ canonZ q, canonZ r,
      (last 0 b) ^+ (size a - size b).+1 *: Poly a = Poly q * Poly b + Poly r
    & (size r < size b)%N].
Proof. exact (@pseudo_div_rem_ok a b q r). Qed.
Theorem pseudo_div_rem_early_return (a b : seq Z) :
  a = [::] \/ b = [::] \/ (size a < size b)%N -> pseudo_div_rem a b = ([::], a).
Proof. exact (@pseudo_div_rem_early a b). Qed.
Example ex_pseudo :
  pseudo_div_rem [:: 5; 0; 2; 0; 6; 9]%Z [:: 6; 6; 6; 1; 7]%Z = ([:: 33; 63]%Z, [:: 47; -576; -478; -411]%Z)
  /\ canonZ [:: 5; 0; 2; 0; 6; 9]%Z /\ canonZ [:: 6; 6; 6; 1; 7]%Z.
Proof. by vm_compute. Qed.

Example ex_pseudo_early :
  pseudo_div_rem [:: 1; 2]%Z [:: 1; 2; 3]%Z = ([::], [:: 1; 2]%Z) /\ pseudo_div_rem [:: 1; 2]%Z [::] = ([::], [:: 1; 2]%Z).
Proof. by vm_compute. Qed.
(* scaling really happens: lc(b) = 2, deg a - deg b + 1 = 2, 4 * (x^2 + 1) = (2x - 2) * (2x + 2) + 8 *)
Example ex_pseudo_scaled : pseudo_div_rem [:: 1; 0; 1]%Z [:: 2; 2]%Z = ([:: -2; 2]%Z, [:: 8]%Z).
Proof. by vm_compute. Qed.

(** ** [P] monic division (polynomial.rs:314-321) *)
Theorem div_rem_bigint_spec (a b q r : seq Z) :
  canonZ a -> canonZ b -> zis_monic b -> div_rem_bigint a b = Done (q, r) ->
  [/\ canonZ q, canonZ r, Poly a = Poly q * Poly b + Poly r & (size r < size b)%N].
Proof. exact (@div_rem_bigint_main a b q r). Qed.
Theorem div_rem_bigint_asserts_monic (a b : seq Z) :
  zis_monic b = false -> div_rem_bigint a b = Panic PAssert.
Proof. exact (@div_rem_bigint_nonmonic a b). Qed.
Theorem div_rem_bigint_total (a b : seq Z) :
  zis_monic b -> exists qr, div_rem_bigint a b = Done qr.
Proof. exact (@div_rem_bigint_done a b). Qed.
Example ex_div_rem :
  div_rem_bigint [:: 1; 0; 1; 0; 1]%Z [:: 3; 2; 1]%Z = Done ([:: 2; -2; 1]%Z, [:: -5; 2]%Z)
  /\ div_rem_bigint [:: 1; 0; 1]%Z [:: 3; 2]%Z = Panic PAssert.
Proof. by vm_compute. Qed.

(** ** [P] exact division (polynomial.rs:356-388): [Some q] iff [q] is the quotient in Z[x] *)
Theorem div_exact_iff (a b q : seq Z) : canonZ a -> canonZ b ->
  div_exact a b = Some q <-> [/\ b != [::], canonZ q & Poly a = Poly q * Poly b].
Proof. exact (@PolyZ.div_exact_iff a b q). Qed.
Theorem div_exact_none (a b : seq Z) : canonZ a -> canonZ b -> b != [::] ->
  div_exact a b = None -> forall Q : {poly Z}, Poly a <> Q * Poly b.
Proof. exact (@PolyZ.div_exact_none a b). Qed.
Example ex_div_exact :
  div_exact [:: 2; 7; 6]%Z [:: 2; 3]%Z = Some [:: 1; 2]%Z /\ div_exact [:: 2; 7; 7]%Z [:: 2; 3]%Z = None
  /\ div_exact [:: 2; 4]%Z [:: 0; 2]%Z = None /\ div_exact [:: 1]%Z [::] = None.
Proof. by vm_compute. Qed.

(** ** [P] content and primitive part (polynomial.rs:80-99) *)
Theorem cont_pp_spec (a : seq Z) (c : Z) (pp : seq Z) :
  canonZ a -> a != [::] -> cont_pp a = (c, pp) ->
  [/\ c *: Poly pp = Poly a, canonZ pp, (0 < last 0 pp)%Z,
      forall d, (forall x, List.In x pp -> (d | x)%Z) -> (d | 1)%Z
    & ((0 < c)%Z <-> (0 < last 0 a)%Z)].
Proof. exact (@cont_pp_main a c pp). Qed.
Theorem cont_pp_of_zero : cont_pp [::] = (0%Z, [:: 1%Z]).
Proof. exact cont_pp_zero. Qed.
Example ex_cont_pp : cont_pp [:: -4; 6; -2]%Z = ((-2)%Z, [:: 2; -3; 1]%Z) /\ canonZ [:: -4; 6; -2]%Z.
Proof. by vm_compute. Qed.

(** ** Instances at BigRational *)
Theorem qp_add_refines (a b : seq Qc) : Poly (padd opsQc a b) = Poly a + Poly b.
Proof. exact (Poly_padd _ a b). Qed.
Theorem qp_sub_refines (a b : seq Qc) : Poly (psub opsQc a b) = Poly a - Poly b.
Proof. exact (Poly_psub _ a b). Qed.
Theorem qp_mul_refines (a b : seq Qc) : Poly (pmul opsQc a b) = Poly a * Poly b.
Proof. exact (Poly_pmul _ a b). Qed.
Theorem qp_mul_comm (a b : seq Qc) : pmul opsQc a b = pmul opsQc b a.
Proof. exact (pmul_comm _ a b). Qed.
Theorem qp_of_mul (a b : seq Qc) (x : Qc) : pof opsQc (pmul opsQc a b) x = Qcmult (pof opsQc a x) (pof opsQc b x).
Proof. exact (pof_pmul _ a b x). Qed.
Theorem qp_of_add (a b : seq Qc) (x : Qc) : pof opsQc (padd opsQc a b) x = Qcplus (pof opsQc a x) (pof opsQc b x).
Proof. exact (pof_padd _ a b x). Qed.

(** ** [P] rational division (polynomial.rs:390-413) *)
Theorem div_rem_q_spec (a b q r : seq Qc) : canonQ a -> canonQ b -> b != [::] ->
  div_rem_q a b = (q, r) ->
  [/\ canonQ q, canonQ r, Poly a = Poly q * Poly b + Poly r & (size r < size b)%N].
Proof. exact (@div_rem_q_main a b q r). Qed.
Theorem div_rem_q_early_return (a b : seq Qc) :
  a = [::] \/ b = [::] \/ (size a < size b)%N -> div_rem_q a b = ([::], a).
Proof. exact (@div_rem_q_early a b). Qed.
(* equalities of [Qc] values are stated with [==] (decided by [Qeq_bool]): the canonicity proofs inside
   [Qc] are not syntactically equal after evaluation *)
Example ex_div_rem_q :
  let h := Q2Qc (1 # 2) in let two := Q2Qc 2 in
  [&& div_rem_q [:: h; Q2Qc 0; Q2Qc 1] [:: Q2Qc 1; two] == ([:: Q2Qc (-1 # 4); h], [:: Q2Qc (3 # 4)]),
      canonQ [:: h; Q2Qc 0; Q2Qc 1], canonQ [:: Q2Qc 1; two]
    & padd opsQc [:: h; h] [:: h; Qcopp h] == [:: Q2Qc 1]].
Proof. by vm_compute. Qed.
