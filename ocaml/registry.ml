(* Operation table: name -> (args -> answer). *)
open Base

type answer = Ok_ of Term.t | Panic_ of string | Fuel_

let table : (string, Term.t list -> answer) Hashtbl.t = Hashtbl.create 97
let register name f = Hashtbl.replace table name f

let tag_name = function
  | POverflow -> "overflow" | PDiv0 -> "div0" | PAssert -> "assert"
  | PIndex -> "index" | PUnwrap -> "unwrap" | POther -> "other"

(* lift a model outcome *)
let out (enc : 'a -> Term.t) (o : 'a outcome) : answer =
  match o with
  | Done a -> Ok_ (enc a)
  | Panic t -> Panic_ (tag_name t)
  | OutOfFuel -> Fuel_

let pure (t : Term.t) : answer = Ok_ t
