(* C04 / C05 / C10: resultant, discriminant, gcd in Z[x]; same operations as harness/src/ops/res.rs.
   Inputs are normalised with from_raw, as the harness builds them with Polynomial::from_raw.
   Optional last argument: build profile (checked | wrapping), read by the model only.
   The *_x variants answer [value exactness-flag]. *)
open Conv
open Registry
open Poly
open Resultant

let zp t = from_raw opsZ (ints t)
let qp t = from_raw opsQc (rats t)
let mode_at a i = if List.length a > i then mode_ (arg a i) else Base.Checked
let flagged enc (ex, o) = out (fun v -> tl [enc v; tbool ex]) o
let () =
  register "resultant" (fun a -> out ti (snd (resultant (mode_at a 2) (zp (arg a 0)) (zp (arg a 1)))));
  register "resultant_x" (fun a -> flagged ti (resultant (mode_at a 2) (zp (arg a 0)) (zp (arg a 1))));
  register "resultant_rational" (fun a -> out tr (resultant_rational (mode_at a 2) (qp (arg a 0)) (qp (arg a 1))));
  register "resultant_gcd" (fun a -> out tints (snd (resultant_gcd (zp (arg a 0)) (zp (arg a 1)))));
  register "resultant_gcd_x" (fun a -> flagged tints (resultant_gcd (zp (arg a 0)) (zp (arg a 1))));
  register "discriminant" (fun a -> out ti (snd (discriminant (mode_at a 1) (zp (arg a 0)))));
  register "discriminant_x" (fun a -> flagged ti (discriminant (mode_at a 1) (zp (arg a 0))))
(* list variants: the same call on several inputs (metamorphic relations); first panic wins *)
let rec seq f = function
  | [] -> Base.Done []
  | x :: t -> (match f x with
      | Base.Done v -> (match seq f t with Base.Done l -> Base.Done (v :: l) | Base.Panic p -> Base.Panic p | Base.OutOfFuel -> Base.OutOfFuel)
      | Base.Panic p -> Base.Panic p
      | Base.OutOfFuel -> Base.OutOfFuel)
let pair_of t = match list_ t with [f; g] -> (f, g) | _ -> bad "pair" t
let () =
  register "resultant_list" (fun a ->
      let m = mode_at a 1 in
      out tl (seq (fun t -> let (f, g) = pair_of t in
                    match resultant m (zp f) (zp g) with
                    | (ex, Base.Done v) -> Base.Done (tl [ti v; tbool ex]) | (_, Base.Panic p) -> Base.Panic p | (_, Base.OutOfFuel) -> Base.OutOfFuel)
                (list_ (arg a 0))));
  register "resultant_rational_list" (fun a ->
      let m = mode_at a 1 in
      out tl (seq (fun t -> let (f, g) = pair_of t in
                    match resultant_rational m (qp f) (qp g) with
                    | Base.Done v -> Base.Done (tr v) | Base.Panic p -> Base.Panic p | Base.OutOfFuel -> Base.OutOfFuel)
                (list_ (arg a 0))));
  register "discriminant_list" (fun a ->
      let m = mode_at a 1 in
      out tl (seq (fun f ->
                    match discriminant m (zp f) with
                    | (ex, Base.Done v) -> Base.Done (tl [ti v; tbool ex]) | (_, Base.Panic p) -> Base.Panic p | (_, Base.OutOfFuel) -> Base.OutOfFuel)
                (list_ (arg a 0))))
(* disc_prod f g fg : [disc f; disc g; disc fg; res f g], each with its flag *)
let () =
  register "disc_prod" (fun a ->
      let m = mode_at a 3 in
      let fl = function
        | (ex, Base.Done v) -> Base.Done (tl [ti v; tbool ex]) | (_, Base.Panic p) -> Base.Panic p | (_, Base.OutOfFuel) -> Base.OutOfFuel in
      out tl (seq (fun k -> match k with
          | 0 -> fl (discriminant m (zp (arg a 0)))
          | 1 -> fl (discriminant m (zp (arg a 1)))
          | 2 -> fl (discriminant m (zp (arg a 2)))
          | _ -> fl (resultant m (zp (arg a 0)) (zp (arg a 1)))) [0; 1; 2; 3]))
let init () = ()
