(* C14/C15: number-field elements (src/algebraic.rs), orders, multiplication tables.
   Same operations as harness/src/ops/algorder.rs. *)
open Conv
open Registry
open Poly
open Algebraic

let zp t = from_raw opsZ (ints t)
let qp t = from_raw opsQc (rats t)
let () =
  (* alg_* f a b : elements given by their expr polynomial (rationals), f the minimal polynomial *)
  register "alg_add" (fun a -> pure (trats (alg_add (qp (arg a 1)) (qp (arg a 2)))));
  register "alg_sub" (fun a -> pure (trats (alg_sub (qp (arg a 1)) (qp (arg a 2)))));
  register "alg_mul" (fun a -> out trats (alg_mul (zp (arg a 0)) (qp (arg a 1)) (qp (arg a 2))));
  register "alg_pow" (fun a -> out trats (alg_pow (zp (arg a 0)) (qp (arg a 1)) (int_ (arg a 2))));
  register "alg_pow_u64" (fun a -> out trats (alg_pow (zp (arg a 0)) (qp (arg a 1)) (int_ (arg a 2))));
  register "alg_theta_pow" (fun a -> out trats (alg_pow (zp (arg a 0)) (alg_new (zp (arg a 0))) (int_ (arg a 1))));
  register "alg_as_coefs" (fun a -> out trats (as_coefs Base.Checked (zp (arg a 0)) (qp (arg a 1))))
let init () = ()
