(* C14/C15: number-field elements (src/algebraic.rs), multiplication tables (src/mult_table.rs),
   orders (src/order.rs).  Same operations as harness/src/ops/algorder.rs.

   An order argument is a term naming the constructor path (the field of [Order] is private):
     [basis M]      Order::from_basis(M)
     [sg f e]       Order::singly_gen(&Algebraic { min_poly: f, expr: e })
     [sgnew f]      Order::singly_gen(&Algebraic::new(f))
     [triv f]       order::trivial_order_monic(&Algebraic::new(f))
     [nonmonic f]   order::non_monic_initial_order(&Algebraic::new(f))
   Operations on an order built this way answer [basis result] (the stored basis first), so that
   the oracles can work from the basis the implementation really used. *)
open Conv
open Registry
open Poly
open Algebraic
open Base

let zp t = from_raw opsZ (ints t)
let qp t = from_raw opsQc (rats t)

let ord (t : Term.t) =
  match list_ t with
  | [Term.Id "basis"; m] -> Order.from_basis (rmat m)
  | [Term.Id "sg"; f; e] -> Order.singly_gen (zp f) (qp e)
  | [Term.Id "sgnew"; f] -> Order.singly_gen (zp f) (alg_new (zp f))
  | [Term.Id "triv"; f] -> Order.trivial_order_monic (zp f)
  | [Term.Id "nonmonic"; f] -> Order.non_monic_initial_order (zp f)
  | _ -> bad "order constructor" t

let table_ t = List.map imat (list_ t)
let ttable t = tl (List.map timat t)
let tpair_inv (ans, norm) = tl [tints ans; ti norm]
let tinvdiff (l, h) = tl [ti l; timat h]

(* [basis result] *)
let with_basis enc b r = out (fun v -> tl [trmat b; enc v]) r
let on_ord t k = match ord t with
  | Done b -> k b
  | Panic p -> Panic_ (tag_name p)
  | OutOfFuel -> Fuel_
(* order, then its multiplication table w.r.t. f, then an operation on the table *)
let on_table a enc k =
  on_ord (arg a 0) (fun b ->
    with_basis enc b (bind (Order.get_mult_table b (zp (arg a 1))) k))

let () =
  (* alg_* f a b : elements given by their expr polynomial (rationals), f the minimal polynomial *)
  register "alg_new" (fun a -> pure (trats (alg_new (zp (arg a 0)))));
  register "alg_add" (fun a -> pure (trats (alg_add (qp (arg a 1)) (qp (arg a 2)))));
  register "alg_sub" (fun a -> pure (trats (alg_sub (qp (arg a 1)) (qp (arg a 2)))));
  register "alg_mul" (fun a -> out trats (alg_mul (zp (arg a 0)) (qp (arg a 1)) (qp (arg a 2))));
  register "alg_add_owned" (fun a -> pure (trats (alg_add (qp (arg a 1)) (qp (arg a 2)))));
  register "alg_sub_owned" (fun a -> pure (trats (alg_sub (qp (arg a 1)) (qp (arg a 2)))));
  register "alg_mul_owned" (fun a -> out trats (alg_mul (zp (arg a 0)) (qp (arg a 1)) (qp (arg a 2))));
  (* derived PartialEq on the stored representative (the model stores canonical coefficient lists) *)
  register "alg_eq" (fun a -> pure (tbool (qp (arg a 1) = qp (arg a 2))));
  register "alg_pow" (fun a -> out trats (alg_pow (zp (arg a 0)) (qp (arg a 1)) (int_ (arg a 2))));
  register "alg_pow_u64" (fun a -> out trats (alg_pow (zp (arg a 0)) (qp (arg a 1)) (int_ (arg a 2))));
  register "alg_theta_pow" (fun a -> out trats (alg_pow (zp (arg a 0)) (alg_new (zp (arg a 0))) (int_ (arg a 1))));
  register "alg_as_coefs" (fun a -> out trats (as_coefs Base.Checked (zp (arg a 0)) (qp (arg a 1))));
  (* alg_law f a b c s t : both sides of the ring laws and of a^(s+t) = a^s * a^t, as pairs *)
  register "alg_law" (fun a ->
    let f = zp (arg a 0) and x = qp (arg a 1) and y = qp (arg a 2) and z = qp (arg a 3) in
    let s = int_ (arg a 4) and t = int_ (arg a 5) in
    let pair u v = tl [trats u; trats v] in
    let ( >>= ) = bind in
    out (fun l -> tl l)
      (alg_mul f x y >>= fun xy -> alg_mul f xy z >>= fun xy_z ->
       alg_mul f y z >>= fun yz -> alg_mul f x yz >>= fun x_yz ->
       alg_mul f x (alg_add y z) >>= fun x_ypz -> alg_mul f x z >>= fun xz ->
       alg_mul f y x >>= fun yx ->
       alg_pow f x (BinInt.Z.add s t) >>= fun pst -> alg_pow f x s >>= fun ps ->
       alg_pow f x t >>= fun pt -> alg_mul f ps pt >>= fun pspt ->
       Done [pair xy_z x_yz; pair x_ypz (alg_add xy xz); pair xy yx; pair pst pspt]));
  (* mt_* T ... : operations on an explicit table *)
  register "mt_deg" (fun a -> pure (tnat (MultTable.mt_deg (table_ (arg a 0)))));
  register "mt_mul" (fun a -> out tints (MultTable.mt_mul (mode_ (arg a 3)) (table_ (arg a 0)) (ints (arg a 1)) (ints (arg a 2))));
  register "mt_trace" (fun a -> out ti (MultTable.mt_trace (table_ (arg a 0)) (ints (arg a 1))));
  register "mt_norm" (fun a -> out ti (MultTable.mt_norm (table_ (arg a 0)) (ints (arg a 1))));
  register "mt_inv" (fun a -> out tpair_inv (MultTable.mt_inv (table_ (arg a 0)) (ints (arg a 1))));
  register "mt_inv_diff" (fun a -> out tinvdiff (MultTable.mt_inv_diff (table_ (arg a 0))));
  (* ord_* O ... *)
  register "ord_basis" (fun a -> on_ord (arg a 0) (fun b -> pure (trmat b)));
  register "ord_deg" (fun a -> on_ord (arg a 0) (fun b -> pure (tnat (Order.order_deg b))));
  register "ord_eq" (fun a -> on_ord (arg a 0) (fun x -> on_ord (arg a 1) (fun y -> pure (tbool (Order.order_eqb x y)))));
  register "ord_index" (fun a -> on_ord (arg a 0) (fun x -> on_ord (arg a 1) (fun y -> out ti (Order.order_index x y))));
  register "ord_union" (fun a -> on_ord (arg a 0) (fun x -> on_ord (arg a 1) (fun y -> out trmat (Order.order_union x y))));
  (* ord_disc O f : O.discriminant(theta), theta with minimal polynomial f.  The model computes
     discriminant(f) itself (Resultant.discriminant, wired in by Round2.order_disc); nothing is
     taken from the implementation's answer *)
  register "ord_disc" (fun a -> on_ord (arg a 0) (fun b ->
    out ti (Round2.order_disc Base.Checked b (zp (arg a 1)))));
  register "ord_mult_table" (fun a -> on_ord (arg a 0) (fun b ->
    with_basis ttable b (Order.get_mult_table b (zp (arg a 1)))));
  register "ord_to_z_basis" (fun a -> on_ord (arg a 0) (fun b ->
    with_basis trats b (Order.to_z_basis b (qp (arg a 2)))));
  register "ord_to_z_basis_int" (fun a -> on_ord (arg a 0) (fun b ->
    with_basis tints b (Order.to_z_basis_int b (qp (arg a 2)))));
  (* omt_* O f ... : table of the order, then the table operation *)
  register "omt_mul" (fun a -> on_table a tints (fun t -> MultTable.mt_mul Base.Checked t (ints (arg a 2)) (ints (arg a 3))));
  register "omt_trace" (fun a -> on_table a ti (fun t -> MultTable.mt_trace t (ints (arg a 2))));
  register "omt_norm" (fun a -> on_table a ti (fun t -> MultTable.mt_norm t (ints (arg a 2))));
  register "omt_inv" (fun a -> on_table a tpair_inv (fun t -> MultTable.mt_inv t (ints (arg a 2))));
  register "omt_inv_diff" (fun a -> on_table a tinvdiff (fun t -> MultTable.mt_inv_diff t))
let init () = ()
