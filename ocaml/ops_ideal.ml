(* C16/C17: ideals of an order (coq/Model/Ideal.v), decomposition of a rational prime
   (coq/Model/PrimeDecomp.v).  Same operations as harness/src/ops/ideal.rs -- see there for the
   context / ideal argument syntax.  An optional last identifier `wrapping` selects the release
   profile (default: dev profile).  Sub-terms are evaluated in the order the harness evaluates
   them, so that the first panic is the same one. *)
open Conv
open Registry
open Base

exception Stop of answer

let run (o : 'a outcome) : 'a =
  match o with
  | Done x -> x
  | Panic p -> raise (Stop (Panic_ (tag_name p)))
  | OutOfFuel -> raise (Stop Fuel_)

(* [ok v] | [panic class] *)
let sub enc (o : 'a outcome) : Term.t =
  match o with
  | Done v -> tl [tid "ok"; enc v]
  | Panic p -> tl [tid "panic"; tid (tag_name p)]
  | OutOfFuel -> raise (Stop Fuel_)

let md = ref Checked

let reg name (f : Term.t list -> Term.t) =
  register name (fun a ->
    (md := match List.rev a with Term.Id "wrapping" :: _ -> Wrapping | _ -> Checked);
    try Ok_ (f a) with Stop ans -> ans)

type ctx = { basis : Order.qmat option; f : BinNums.coq_Z list option; table : MultTable.table }

let ctx (t : Term.t) : ctx =
  match list_ t with
  | [Term.Id "ord"; o; f] ->
    let b = run (Ops_algorder.ord o) in
    let fz = Ops_algorder.zp f in
    let tb = run (Order.get_mult_table b fz) in
    { basis = Some b; f = Some fz; table = tb }
  | [Term.Id "ordtab"; o; f; tt] ->
    let b = run (Ops_algorder.ord o) in
    { basis = Some b; f = Some (Ops_algorder.zp f); table = Ops_algorder.table_ tt }
  | [Term.Id "tab"; tt] -> { basis = None; f = None; table = Ops_algorder.table_ tt }
  | _ -> bad "context" t

let basis_term c = match c.basis with Some b -> trmat b | None -> tl []
let with_basis c r = tl [basis_term c; r]

let rec ideal (t : Term.t) (tb : MultTable.table) : Ideal.ideal =
  match list_ t with
  | Term.Id "gens" :: g1 :: rest ->
    let acc = ref (run (Ideal.principal !md tb (ints g1))) in
    List.iter (fun g ->
        let pg = run (Ideal.principal !md tb (ints g)) in
        acc := run (Ideal.ideal_add !md !acc pg)) rest;
    !acc
  | [Term.Id "rows"; m] -> Ideal.ideal_new (run (Hnf.hnf_new (imat m))) tb
  | [Term.Id "add"; x; y] ->
    let x = ideal x tb in
    let y = ideal y tb in
    run (Ideal.ideal_add !md x y)
  | [Term.Id "mul"; x; y] ->
    let x = ideal x tb in
    let y = ideal y tb in
    run (Ideal.ideal_mul !md x y)
  | [Term.Id "pow"; x; k] ->
    let x = ideal x tb in
    let k = Z.to_int (zint k) in
    if k < 1 then bad "pow exponent >= 1" t;
    let acc = ref x in
    for _ = 2 to k do acc := run (Ideal.ideal_mul !md !acc x) done;
    !acc
  | _ -> bad "ideal" t

let thnf (i : Ideal.ideal) = timat i.Ideal.i_hnf
let add x y = run (Ideal.ideal_add !md x y)
let mul x y = run (Ideal.ideal_mul !md x y)


let rng_of_term t = Base.rng_of (List.map int_ (list_ t))

let () =
  reg "id_hnf" (fun a ->
    let c = ctx (arg a 0) in
    let i = ideal (arg a 1) c.table in
    with_basis c (thnf i));
  reg "id_info" (fun a ->
    let c = ctx (arg a 0) in
    let i = ideal (arg a 1) c.table in
    let x = ints (arg a 2) in
    with_basis c (tl [thnf i; sub ti (Ideal.norm i); sub ti (Ideal.cap_z i); sub tbool (Ideal.contains !md i x)]));
  reg "id_norm" (fun a ->
    let c = ctx (arg a 0) in
    let i = ideal (arg a 1) c.table in
    with_basis c (ti (run (Ideal.norm i))));
  reg "id_cap_z" (fun a ->
    let c = ctx (arg a 0) in
    let i = ideal (arg a 1) c.table in
    with_basis c (ti (run (Ideal.cap_z i))));
  reg "id_contains" (fun a ->
    let c = ctx (arg a 0) in
    let i = ideal (arg a 1) c.table in
    with_basis c (tbool (run (Ideal.contains !md i (ints (arg a 2))))));
  reg "id_eq" (fun a ->
    let c = ctx (arg a 0) in
    let i = ideal (arg a 1) c.table in
    let j = ideal (arg a 2) c.table in
    with_basis c (tbool (Ideal.ideal_eqb i j)));
  reg "id_pair" (fun a ->
    let c = ctx (arg a 0) in
    let i = ideal (arg a 1) c.table in
    let j = ideal (arg a 2) c.table in
    let s = add i j in
    let p = mul i j in
    let q = mul j i in
    let ni = run (Ideal.norm i) in
    let nj = run (Ideal.norm j) in
    let np = run (Ideal.norm p) in
    with_basis c (tl [thnf i; thnf j; thnf s; thnf p; thnf q; ti ni; ti nj; ti np]));
  reg "id_laws" (fun a ->
    let c = ctx (arg a 0) in
    let i = ideal (arg a 1) c.table in
    let j = ideal (arg a 2) c.table in
    let k = ideal (arg a 3) c.table in
    let ij = mul i j in
    let ji = mul j i in
    let ij_k = mul ij k in
    let jk = mul j k in
    let i_jk = mul i jk in
    let jpk = add j k in
    let i_jpk = mul i jpk in
    let ik = mul i k in
    let ijpik = add ij ik in
    let ipj = add i j in
    let jpi = add j i in
    with_basis c (tl (List.map thnf [i; j; k; ij; ji; ij_k; i_jk; jpk; i_jpk; ijpik; ipj; jpi])));
  reg "id_inv_diff" (fun a ->
    let c = ctx (arg a 0) in
    let (l, n) = run (Ideal.get_inv_diff c.table) in
    let nn = run (Ideal.norm n) in
    with_basis c (tl [ti l; thnf n; ti nn]));
  reg "id_inv" (fun a ->
    let c = ctx (arg a 0) in
    let i = ideal (arg a 1) c.table in
    let d = run (Ideal.get_inv_diff c.table) in
    let r = run (Ideal.ideal_inv !md i d) in
    let flag = run (Ideal.inv_flag !md i r) in
    with_basis c (tl [thnf i; ti (fst d); thnf (snd d); ti (fst r); thnf (snd r); tbool flag]));
  (* dec_decompose ctx p bytes -> [ok [basis [[hnf e] ..]] remaining exhausted] *)
  reg "dec_decompose" (fun a ->
    let c = ctx (arg a 0) in
    match c.basis, c.f with
    | Some b, Some f ->
      let (res, r') = run (PrimeDecomp.decompose !md f b c.table (int_ (arg a 1)) (rng_of_term (arg a 2))) in
      tl [tid "ok"; with_basis c (tl (List.map (fun (i, e) -> tl [thnf i; ti e]) res));
          tint (List.length r'.Base.rng_bytes); tbool r'.Base.rng_exhausted]
    | _ -> bad "context with an order" (arg a 0));
  (* dec_norms ctx p bytes -> [[norm e] ..] *)
  reg "dec_norms" (fun a ->
    let c = ctx (arg a 0) in
    match c.basis, c.f with
    | Some b, Some f ->
      let (res, _) = run (PrimeDecomp.decompose !md f b c.table (int_ (arg a 1)) (rng_of_term (arg a 2))) in
      tl (List.map (fun (i, e) -> tl [ti (run (Ideal.norm i)); ti e]) res)
    | _ -> bad "context with an order" (arg a 0))
let init () = ()
