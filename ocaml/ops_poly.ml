(* C09: polynomial arithmetic; same operations as harness/src/ops/poly.rs.
   Inputs are normalised with from_raw, as the harness builds them with Polynomial::from_raw. *)
open Conv
open Registry
open Poly

let zp t = from_raw opsZ (ints t)
let qp t = from_raw opsQc (rats t)
let pair f g (a, b) = tl [f a; g b]
let () =
  register "zp_from_raw" (fun a -> pure (tints (zp (arg a 0))));
  register "zp_add" (fun a -> pure (tints (padd opsZ (zp (arg a 0)) (zp (arg a 1)))));
  register "zp_sub" (fun a -> pure (tints (psub opsZ (zp (arg a 0)) (zp (arg a 1)))));
  register "zp_neg" (fun a -> pure (tints (pneg opsZ (zp (arg a 0)))));
  register "zp_mul" (fun a -> pure (tints (pmul opsZ (zp (arg a 0)) (zp (arg a 1)))));
  register "zp_of" (fun a -> pure (ti (pof opsZ (zp (arg a 0)) (int_ (arg a 1)))));
  register "zp_diff" (fun a -> pure (tints (pdiff opsZ (zp (arg a 0)))));
  register "zp_deg" (fun a -> pure (ti (pdeg (zp (arg a 0)))));
  register "zp_coef_at" (fun a -> pure (ti (coef_at opsZ (zp (arg a 0)) (nat_ (arg a 1)))));
  register "zp_eq" (fun a -> pure (tbool (zp (arg a 0) = zp (arg a 1))));
  register "zp_pseudo_div_rem" (fun a -> pure (pair tints tints (pseudo_div_rem (zp (arg a 0)) (zp (arg a 1)))));
  register "zp_div_rem" (fun a -> out (pair tints tints) (div_rem_bigint (zp (arg a 0)) (zp (arg a 1))));
  register "zp_div_exact" (fun a -> pure (match div_exact (zp (arg a 0)) (zp (arg a 1)) with Some q -> tl [tid "some"; tints q] | None -> tid "none"));
  register "zp_cont_pp" (fun a -> pure (pair ti tints (cont_pp (zp (arg a 0)))));
  register "zp_content" (fun a -> pure (ti (content (zp (arg a 0)))));
  register "qp_from_raw" (fun a -> pure (trats (qp (arg a 0))));
  register "qp_add" (fun a -> pure (trats (padd opsQc (qp (arg a 0)) (qp (arg a 1)))));
  register "qp_sub" (fun a -> pure (trats (psub opsQc (qp (arg a 0)) (qp (arg a 1)))));
  register "qp_neg" (fun a -> pure (trats (pneg opsQc (qp (arg a 0)))));
  register "qp_mul" (fun a -> pure (trats (pmul opsQc (qp (arg a 0)) (qp (arg a 1)))));
  register "qp_of" (fun a -> pure (tr (pof opsQc (qp (arg a 0)) (rat_ (arg a 1)))));
  register "qp_div_rem" (fun a -> pure (pair trats trats (div_rem_q (qp (arg a 0)) (qp (arg a 1)))))
let () =
  (* by-value operator impls of the Rust code: same mathematical operations *)
  register "zp_add_owned" (fun a -> pure (tints (padd opsZ (zp (arg a 0)) (zp (arg a 1)))));
  register "zp_sub_owned" (fun a -> pure (tints (psub opsZ (zp (arg a 0)) (zp (arg a 1)))));
  register "zp_neg_owned" (fun a -> pure (tints (pneg opsZ (zp (arg a 0)))));
  register "zp_mul_owned" (fun a -> pure (tints (pmul opsZ (zp (arg a 0)) (zp (arg a 1)))));
  register "qp_add_owned" (fun a -> pure (trats (padd opsQc (qp (arg a 0)) (qp (arg a 1)))));
  register "qp_sub_owned" (fun a -> pure (trats (psub opsQc (qp (arg a 0)) (qp (arg a 1)))));
  register "qp_mul_owned" (fun a -> pure (trats (pmul opsQc (qp (arg a 0)) (qp (arg a 1)))))
let init () = ()
