(* C07: factorisation over Z; same operation as harness/src/ops/polyz.rs.
   polyz_factorize f bytes [wrapping] answers
   [ok [content [[factor e]...]] remaining-bytes exhausted final-cofactor]: the value the Rust routine
   returns, the state of the draw stream after the run, and the model's ghost result (the polynomial
   left after all exact divisions of the multiplicity loops). *)
open Conv
open Registry
open Poly

let zp t = from_raw opsZ (ints t)
let md a i = if List.length a > i then mode_ (arg a i) else Base.Checked
let rng_of_term t = Base.rng_of (List.map int_ (list_ t))

let () =
  register "polyz_factorize" (fun a ->
      out (fun (((c, l), cof), r') ->
          tl [tid "ok"; tl [ti c; tl (List.map (fun (g, e) -> tl [tints g; ti e]) l)];
              tint (List.length r'.Base.rng_bytes); tbool r'.Base.rng_exhausted; tints cof])
        (PolyZFactor.factorize_full (md a 2) (zp (arg a 0)) (rng_of_term (arg a 1))))
let init () = ()
