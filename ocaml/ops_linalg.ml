(* C18: exact linear algebra; same operations as harness/src/ops/linalg.rs.
   Results: Result<_, _> is encoded as [ok v] | [err] | [err <variant>]. *)
open Conv
open Registry
open LinAlg

let ok_ t = tl [tid "ok"; t]
let err_ = tl [tid "err"]
let res enc = function Ok v -> ok_ (enc v) | Err _ -> err_

let () =
  register "la_det" (fun a -> out tr (determinant fopsQc (rmat (arg a 0))));
  register "la_inv" (fun a -> out (res trmat) (inv fopsQc (rmat (arg a 0))));
  register "la_solve" (fun a -> out (res trats) (solve_linear_system fopsQc (rmat (arg a 0)) (rats (arg a 1))));
  register "la_iim" (fun a ->
    out (function Ok x -> ok_ (trmat x)
                | Err LinearlyDependent -> tl [tid "err"; tid "dependent"]
                | Err NotInImage -> tl [tid "err"; tid "notinimage"])
      (iim fopsQc (rmat (arg a 0)) (rmat (arg a 1))));
  register "la_supp" (fun a -> out (res trmat) (supplement_basis fopsQc (rmat (arg a 0))));
  register "la_image" (fun a -> out timat (image_mod_p (imat (arg a 0)) (int_ (arg a 1))));
  register "la_mulinv" (fun a -> out (res timat) (mul_inv_from_right_exact (imat (arg a 0)) (imat (arg a 1))))
let init () = ()
