(* C08 / C11 / C12: polynomials modulo p; same operations as harness/src/ops/polymod.rs.
   Polynomial arguments are normalised with from_raw, as the harness builds them with
   Polynomial::from_raw. Randomised operations take the bytes the implementation consumed
   and answer [ok value remaining-bytes exhausted]. An optional last identifier
   `wrapping` selects the release profile (default: dev profile). *)
open Conv
open Registry
open Poly

let zp t = from_raw opsZ (ints t)
let zps t = List.map zp (list_ t)
let md a i = if List.length a > i then mode_ (arg a i) else Base.Checked
let rng_of_term t = Base.rng_of (List.map int_ (list_ t))
let tpairs l = tl (List.map (fun (g, e) -> tl [tints g; ti e]) l)
let tpolys l = tl (List.map tints l)
(* value and the state of the draw stream after the run *)
let with_rng enc (v, r') =
  tl [tid "ok"; enc v; tint (List.length r'.Base.rng_bytes); tbool r'.Base.rng_exhausted]

let () =
  register "pm_modpow" (fun a -> out ti (PolyModP.modpow (int_ (arg a 0)) (int_ (arg a 1)) (int_ (arg a 2))));
  register "pm_modinv" (fun a -> out ti (PolyModP.modinv (int_ (arg a 0)) (int_ (arg a 1))));
  register "pm_egcd" (fun a ->
      out (fun ((g, x), y) -> tl [ti g; ti x; ti y]) (PolyModP.num_extended_gcd (int_ (arg a 0)) (int_ (arg a 1))));
  register "pm_poly_mod" (fun a -> out tints (PolyModP.poly_mod (zp (arg a 0)) (int_ (arg a 1))));
  register "pm_poly_div" (fun a -> out tints (PolyModP.poly_div (zp (arg a 0)) (int_ (arg a 1))));
  register "pm_poly_mul" (fun a -> pure (tints (PolyModP.poly_mul (zp (arg a 0)) (int_ (arg a 1)))));
  register "pm_poly_mod_sub" (fun a -> out tints (PolyModP.poly_mod_sub (zp (arg a 0)) (zp (arg a 1)) (int_ (arg a 2))));
  register "pm_differential" (fun a -> out tints (PolyModP.differential (zp (arg a 0)) (int_ (arg a 1))));
  register "pm_poly_of_mod" (fun a ->
      out ti (PolyModP.poly_of_mod (md a 3) (zp (arg a 0)) (int_ (arg a 1)) (int_ (arg a 2))));
  register "pm_poly_divrem" (fun a ->
      out (fun (q, r) -> tl [tints q; tints r]) (PolyModP.poly_divrem (zp (arg a 0)) (zp (arg a 1)) (int_ (arg a 2))));
  register "pm_poly_gcd" (fun a -> out tints (PolyModP.poly_gcd (zp (arg a 0)) (zp (arg a 1)) (int_ (arg a 2))));
  register "pm_poly_ext_gcd" (fun a ->
      out (fun ((g, u), v) -> tl [tints g; tints u; tints v])
        (PolyModP.poly_ext_gcd (zp (arg a 0)) (zp (arg a 1)) (int_ (arg a 2))));
  register "pm_coprime_witness" (fun a ->
      out (fun (u, v) -> tl [tints u; tints v])
        (PolyModP.poly_coprime_witness (zp (arg a 0)) (zp (arg a 1)) (int_ (arg a 2))));
  register "pm_poly_modpow" (fun a ->
      out tints (PolyModP.poly_modpow (zp (arg a 0)) (int_ (arg a 1)) (zp (arg a 2)) (int_ (arg a 3))));
  register "pm_divide_by_x_a" (fun a ->
      out tints (PolyModP.divide_by_x_a (md a 3) (zp (arg a 0)) (int_ (arg a 1)) (int_ (arg a 2))));
  (* C08 *)
  register "pm_squarefree" (fun a ->
      out tpairs (FactorModP.squarefree (md a 3) (zp (arg a 0)) (int_ (arg a 1)) (int_ (arg a 2))));
  register "pm_degree" (fun a -> out tpairs (FactorModP.degree (zp (arg a 0)) (int_ (arg a 1))));
  (* pm_final_split f p d bytes *)
  register "pm_final_split" (fun a ->
      out (with_rng tpolys)
        (FactorModP.final_split (zp (arg a 0)) (int_ (arg a 1)) (int_ (arg a 2)) (rng_of_term (arg a 3))));
  (* pm_factorize f p pusize bytes *)
  register "pm_factorize" (fun a ->
      out (with_rng tpairs)
        (FactorModP.factorize_mod_p (md a 4) (zp (arg a 0)) (int_ (arg a 1)) (int_ (arg a 2)) (rng_of_term (arg a 3))));
  (* C11 *)
  register "pm_hensel_lift" (fun a ->
      out (fun ((a1, b1), qr) -> tl [tints a1; tints b1; ti qr])
        (Hensel.hensel_lift (int_ (arg a 0)) (int_ (arg a 1)) (zp (arg a 2)) (zp (arg a 3)) (zp (arg a 4))
           (zp (arg a 5)) (zp (arg a 6))));
  register "pm_lift_factorization" (fun a ->
      out tpolys (Hensel.lift_factorization (int_ (arg a 0)) (int_ (arg a 1)) (zp (arg a 2)) (zps (arg a 3))));
  (* C12: pm_roots f p bytes [wrapping] *)
  register "pm_roots" (fun a ->
      out (with_rng tints)
        (LinearRoots.find_linear_factors (md a 3) (zp (arg a 0)) (int_ (arg a 1)) (rng_of_term (arg a 2))))
let init () = ()
