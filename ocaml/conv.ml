(* Conversions between protocol terms and the extracted Coq datatypes. *)
open BinNums
open Term

exception Harness of string

(* positive <-> Zarith, by bits *)
let rec pos_of_z (z : Z.t) : positive =
  if Z.equal z Z.one then Coq_xH
  else if Z.is_even z then Coq_xO (pos_of_z (Z.shift_right z 1))
  else Coq_xI (pos_of_z (Z.shift_right z 1))

let coqz_of_z (z : Z.t) : coq_Z =
  let s = Z.sign z in
  if s = 0 then Z0 else if s > 0 then Zpos (pos_of_z z) else Zneg (pos_of_z (Z.neg z))

let z_of_pos (p : positive) : Z.t =
  let rec go p shift acc =
    match p with
    | Coq_xH -> Z.add acc (Z.shift_left Z.one shift)
    | Coq_xO q -> go q (shift + 1) acc
    | Coq_xI q -> go q (shift + 1) (Z.add acc (Z.shift_left Z.one shift))
  in
  go p 0 Z.zero

let z_of_coqz = function Z0 -> Z.zero | Zpos p -> z_of_pos p | Zneg p -> Z.neg (z_of_pos p)

let nat_of_int n =
  let rec go acc k = if k <= 0 then acc else go (Datatypes.S acc) (k - 1) in go Datatypes.O n
let int_of_nat (n : Datatypes.nat) : int =
  let rec go acc = function Datatypes.O -> acc | Datatypes.S m -> go (acc + 1) m in go 0 n

(* decoders *)
let bad what t = raise (Harness ("expected " ^ what ^ ", got " ^ Term.to_string t))
let zint = function Int z -> z | Rat (a, b) when Z.equal b Z.one -> a | t -> bad "int" t
let int_ t = coqz_of_z (zint t)
let nat_ t = nat_of_int (Z.to_int (zint t))
let list_ = function List l -> l | t -> bad "list" t
let id_ = function Id s -> s | t -> bad "ident" t
let ints t = List.map int_ (list_ t)
let imat t = List.map ints (list_ t)
let bool_ t = match id_ t with "true" -> true | "false" -> false | _ -> bad "bool" t

(* encoders *)
let ti (z : coq_Z) = Int (z_of_coqz z)
let tnat (n : Datatypes.nat) = Int (Z.of_int (int_of_nat n))
let tint (n : int) = Int (Z.of_int n)
let tid s = Id s
let tbool b = Id (if b then "true" else "false")
let tl l = List l
let tints l = List (List.map ti l)
let timat m = List (List.map tints m)

(* rationals: canonical (reduced, positive denominator) on input, as BigRational::new does *)
let qc_of_zz (a : Z.t) (b : Z.t) : QArith_base.coq_Q =
  let g = Z.gcd a b in
  let a, b = if Z.sign b < 0 then Z.neg (Z.div a g), Z.neg (Z.div b g) else Z.div a g, Z.div b g in
  { QArith_base.coq_Qnum = coqz_of_z a; QArith_base.coq_Qden = pos_of_z b }
let rat_ = function
  | Int z -> qc_of_zz z Z.one
  | Rat (a, b) -> qc_of_zz a b
  | t -> bad "rational" t
let rats t = List.map rat_ (list_ t)
let rmat t = List.map rats (list_ t)
let tr (q : QArith_base.coq_Q) = Rat (z_of_coqz q.QArith_base.coq_Qnum, z_of_pos q.QArith_base.coq_Qden)
let trats l = List (List.map tr l)
let trmat m = List (List.map trats m)
let mode_ = function Id "wrapping" -> Base.Wrapping | _ -> Base.Checked
let arg a i = List.nth a i
