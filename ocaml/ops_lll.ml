(* C20, exact-arithmetic instance of the model (coq/Model/Lll.v, arithQ). The binary64 instance is not
   extracted: it is evaluated inside coqc by vp/props/c20.py. *)
open Conv
open Registry
open Lll

let qmat t = rmat t
let () =
  (* lll_exact B -> [B' H reduced-flag] *)
  register "lll_exact" (fun a ->
      out (fun ((b, h), flag) -> tl [trmat b; timat h; tbool flag]) (lll_exact_checked (qmat (arg a 0))));
  register "cholesky_exact" (fun a -> out trmat (cholesky_find_exact (qmat (arg a 0))));
  register "find_value_exact" (fun a ->
      out tr (Base.bind (cholesky_find_exact (qmat (arg a 0))) (fun q -> find_value_exact q (rats (arg a 1)))));
  (* short_vectors_exact Q c -> [[value x]*] *)
  register "short_vectors_exact" (fun a ->
      out (fun l -> tl (List.map (fun (v, x) -> tl [tr v; tints x]) l))
        (Base.bind (cholesky_find_exact (qmat (arg a 0))) (fun q -> find_short_vectors_exact q (rat_ (arg a 1)))))
let init () = ()
