(* C19 / C13 / trial division: same operations as harness/src/ops/elem.rs *)
open Conv
open Registry
open Elementary

let rng_of_term t = Base.rng_of (List.map int_ (list_ t))
let () =
  register "inv" (fun a -> out (function InvOk x -> tl [tid "ok"; ti x] | InvErr g -> tl [tid "err"; ti g])
                     (inv (int_ (List.nth a 0)) (int_ (List.nth a 1))));
  register "zmod" (fun a -> out ti (zmod (int_ (List.nth a 0)) (int_ (List.nth a 1))));
  register "perfect_power" (fun a -> out (fun (b, k) -> tl [ti b; ti k]) (perfect_power (int_ (List.nth a 0))));
  register "is_perfect_power" (fun a ->
      pure (match is_perfect_power (int_ (List.nth a 0)) (int_ (List.nth a 1)) with
          | Some b -> tl [tid "some"; ti b] | None -> tid "none"));
  register "kronecker" (fun a ->
      let m = match a with [_; _; m] when id_ m = "wrapping" -> Base.Wrapping | _ -> Base.Checked in
      out ti (kronecker m (int_ (List.nth a 0)) (int_ (List.nth a 1))));
  register "primes" (fun a -> pure (tl (List.map tnat (primes (nat_ (List.nth a 0))))));
  register "primes_iter" (fun a -> out tints (primes_take (nat_ (List.nth a 0)) (coqz_of_z (Z.of_int 2))));
  register "primes_iter_default" (fun a -> out tints (primes_take (nat_ (List.nth a 0)) (coqz_of_z (Z.of_int 2))));
  (* is_prime n seed bytes : the model ignores the seed and reads the logged bytes *)
  register "is_prime" (fun a ->
      let r = rng_of_term (List.nth a 2) in
      out (fun (b, r') -> tl [tbool b; tint (List.length r'.Base.rng_bytes); tbool r'.Base.rng_exhausted])
        (is_prime (int_ (List.nth a 0)) r));
  register "trial_factorize" (fun a ->
      out (fun l -> tl (List.map (fun (p, e) -> tl [ti p; ti e]) l)) (trial_factorize (int_ (List.nth a 0))))
let init () = ()
