(* C01: same operations as harness/src/ops/ecm.rs *)
open Conv
open Registry

let pt_ t = match list_ t with
  | [x; y; z] -> { Ecm.px = int_ x; Ecm.py = int_ y; Ecm.pz = int_ z }
  | _ -> bad "point" t
let tpt (p : Ecm.coq_Point) = tl [ti p.Ecm.px; ti p.Ecm.py; ti p.Ecm.pz]
let ell a n = { Ecm.ea = int_ a; Ecm.en = int_ n }
let tres enc = function Ecm.ROk v -> tl (tid "ok" :: enc v) | Ecm.RErr g -> tl [tid "err"; ti g]
let tres_pt r = tres (fun p -> [tpt p]) r
let tres_pts r = tres (fun l -> [tl (List.map tpt l)]) r
let tres_unit r = tres (fun _ -> []) r
let rng_of_term t = Base.rng_of (List.map int_ (list_ t))
let trng (r : Base.rng) = [tint (List.length r.Base.rng_bytes); tbool r.Base.rng_exhausted]
let tfac l = tl (List.map (fun (p, e) -> tl [ti p; ti e]) l)

(* randomised operations: [ret value remaining exhausted] | [panic class] *)
let out_rand enc o =
  match o with
  | Base.Done a -> Ok_ (tl (tid "ret" :: enc a))
  | Base.Panic t -> Ok_ (tl [tid "panic"; tid (tag_name t)])
  | Base.OutOfFuel -> Fuel_

let pairs t = List.map (fun e -> match list_ e with [p; a] -> (p, a) | _ -> bad "[p a]" e) (list_ t)

let () =
  register "point_add" (fun a -> out tres_pt (Ecm.add (pt_ (arg a 0)) (pt_ (arg a 1)) (ell (arg a 2) (arg a 3))));
  register "point_mul" (fun a -> out tres_pt (Ecm.mul (pt_ (arg a 0)) (int_ (arg a 1)) (ell (arg a 2) (arg a 3))));
  register "point_simplify" (fun a -> out tres_pt (Ecm.simplify (pt_ (arg a 0)) (ell (arg a 1) (arg a 2))));
  register "ecm_oneshot" (fun a ->
      out tres_unit (Ecm.ecm_oneshot (mode_ (arg a 5)) (pt_ (arg a 0)) (ell (arg a 1) (arg a 2)) (int_ (arg a 3)) (int_ (arg a 4))));
  register "many_adds" (fun a ->
      let n = arg a 1 in
      let v = List.map (fun e -> match list_ e with [p; q; c] -> ((pt_ p, pt_ q), ell c n) | _ -> bad "[p q a]" e) (list_ (arg a 0)) in
      out tres_pts (EcmParallel.many_adds v));
  register "many_muls" (fun a ->
      let n = arg a 2 in
      let v = List.map (fun (p, c) -> (pt_ p, ell c n)) (pairs (arg a 0)) in
      out tres_pts (EcmParallel.many_muls v (int_ (arg a 1))));
  register "many_simplify" (fun a ->
      out tres_pts (EcmParallel.many_simplify (List.map pt_ (list_ (arg a 0))) (int_ (arg a 1))));
  register "ecm_oneshot_parallel" (fun a ->
      let n = arg a 1 in
      let v = List.map (fun (p, c) -> (pt_ p, ell c n)) (pairs (arg a 0)) in
      out tres_unit (EcmParallel.ecm_oneshot_parallel (mode_ (arg a 4)) v (int_ (arg a 2)) (int_ (arg a 3))));
  register "par_count" (fun a -> pure (ti (EcmParallel.parallel_count (int_ (arg a 0)))));
  (* ecm n b1 b2 mode bytes curve-fuel *)
  let ecm_op f a =
    out_rand (fun ((fac, count), r) -> tl [ti fac; ti count] :: trng r)
      (f (nat_ (arg a 5)) (mode_ (arg a 3)) (int_ (arg a 0)) (int_ (arg a 1)) (int_ (arg a 2)) (rng_of_term (arg a 4))) in
  register "ecm" (ecm_op Ecm.ecm);
  register "ecm_par" (ecm_op EcmParallel.ecm);
  (* ecm_factorize n b1 mode bytes curve-fuel *)
  let fac_op f a =
    let b1 = int_ (arg a 1) in
    out_rand (fun ((l, count), r) -> tl [tfac l; ti b1; ti count] :: trng r)
      (f (nat_ (arg a 4)) (mode_ (arg a 2)) (int_ (arg a 0)) b1 (rng_of_term (arg a 3))) in
  register "ecm_factorize" (fac_op Ecm.factorize_verbose);
  register "ecmpar_factorize" (fac_op EcmParallel.factorize_verbose)
let init () = ()
