(* model_svc: runs the extracted Coq model, one operation per input line.
     in : <op> <term>*
     out: ok <term> | panic <class> | outoffuel | unsupported <op> | badinput <msg> *)
let () =
  Ops_all.init ();
  (try
     while true do
       let line = input_line stdin in
       if String.trim line <> "" then begin
         let ans =
           match (try Ok (Term.parse_line line) with Term.Bad m -> Error m | Invalid_argument m -> Error m | Failure m -> Error m) with
           | Error m -> "badinput " ^ m
           | Ok [] -> "badinput empty"
           | Ok (op :: args) ->
             let op = match op with Term.Id s -> s | t -> Term.to_string t in
             if op = "ping" then "ok " ^ Term.to_string (Term.List args)
             else
               match Hashtbl.find_opt Registry.table op with
               | None -> "unsupported " ^ op
               | Some f ->
                 (try
                    match f args with
                    | Registry.Ok_ t -> "ok " ^ Term.to_string t
                    | Registry.Panic_ c -> "panic " ^ c
                    | Registry.Fuel_ -> "outoffuel"
                  with
                  | Conv.Harness m -> "badinput " ^ m
                  | Failure m -> "badinput " ^ m
                  | Invalid_argument m -> "badinput " ^ m
                  | Stack_overflow -> "modelerror stack_overflow"
                  | Not_found -> "badinput not_found")
         in
         print_string ans; print_newline ()
       end
     done
   with End_of_file -> ())
