(* Terms of the line protocol shared with impl_svc:
     term ::= INT | INT/INT | IDENT | '[' term* ']'                            *)
type t = Int of Z.t | Rat of Z.t * Z.t | Id of string | List of t list

exception Bad of string

let parse_line (s : string) : t list =
  let n = String.length s in
  let pos = ref 0 in
  let is_ws c = c = ' ' || c = '\t' || c = '\r' || c = '\n' in
  let skip () = while !pos < n && is_ws s.[!pos] do incr pos done in
  let rec term () =
    skip ();
    if !pos >= n then raise (Bad "eof");
    if s.[!pos] = '[' then begin
      incr pos;
      let acc = ref [] in
      let fin = ref false in
      while not !fin do
        skip ();
        if !pos >= n then raise (Bad "unclosed [");
        if s.[!pos] = ']' then (incr pos; fin := true) else acc := term () :: !acc
      done;
      List (List.rev !acc)
    end else begin
      let st = !pos in
      while !pos < n && not (is_ws s.[!pos]) && s.[!pos] <> '[' && s.[!pos] <> ']' do incr pos done;
      let tok = String.sub s st (!pos - st) in
      let c = tok.[0] in
      if c = '-' || (c >= '0' && c <= '9') then
        match String.index_opt tok '/' with
        | Some i ->
          let a = Z.of_string (String.sub tok 0 i) and b = Z.of_string (String.sub tok (i + 1) (String.length tok - i - 1)) in
          if Z.equal b Z.zero then raise (Bad "zero denominator");
          Rat (a, b)
        | None -> Int (Z.of_string tok)
      else Id tok
    end
  in
  let acc = ref [] in
  skip ();
  while !pos < n do acc := term () :: !acc; skip () done;
  List.rev !acc

let rec to_string = function
  | Int z -> Z.to_string z
  | Rat (a, b) ->
    let g = Z.gcd a b in
    let a, b = if Z.sign b < 0 then Z.neg (Z.div a g), Z.neg (Z.div b g) else Z.div a g, Z.div b g in
    if Z.equal b Z.one then Z.to_string a else Z.to_string a ^ "/" ^ Z.to_string b
  | Id s -> s
  | List l -> "[" ^ String.concat " " (List.map to_string l) ^ "]"
