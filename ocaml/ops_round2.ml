(* C06: Round 2 (src/integral_basis/{mod,round2}.rs).  Same operations as harness/src/ops/round2.rs.

   ib_find f [profile]       -> [basis disc index]   find_integral_basis(&Algebraic::new(f)): stored basis, its
                                                     discriminant, its index over non_monic_initial_order
   ib_find_many [f ...]      -> [[basis disc index] ...]   the same on several polynomials (first panic wins)
   ib_one_step f O p         -> [basis howmany]      round2::one_step(&Algebraic::new(f), &O, &p)
   An order argument O names its constructor path as in ops_algorder.ml:
     [basis M] Order::from_basis(M) | [nonmonic f] non_monic_initial_order | [triv f] trivial_order_monic *)
open Conv
open Registry
open Poly
open Base

let zp t = from_raw opsZ (ints t)
let mode_at a i = if List.length a > i then mode_ (arg a i) else Base.Checked

let ord (t : Term.t) =
  match list_ t with
  | [Term.Id "basis"; m] -> Order.from_basis (rmat m)
  | [Term.Id "triv"; f] -> Order.trivial_order_monic (zp f)
  | [Term.Id "nonmonic"; f] -> Order.non_monic_initial_order (zp f)
  | _ -> bad "order constructor" t

let tfind ((b, d), i) = tl [trmat b; ti d; ti i]
let rec seq f = function
  | [] -> Done []
  | x :: t -> (match f x with
      | Done v -> (match seq f t with Done l -> Done (v :: l) | Panic p -> Panic p | OutOfFuel -> OutOfFuel)
      | Panic p -> Panic p
      | OutOfFuel -> OutOfFuel)

let () =
  register "ib_find" (fun a -> out tfind (Round2.ib_find (mode_at a 1) (zp (arg a 0))));
  register "ib_find_many" (fun a ->
    out (fun l -> tl (List.map tfind l)) (seq (fun t -> Round2.ib_find (mode_at a 1) (zp t)) (list_ (arg a 0))));
  register "ib_one_step" (fun a ->
    match ord (arg a 1) with
    | Panic p -> Panic_ (tag_name p)
    | OutOfFuel -> Fuel_
    | Done o -> out (fun (b, h) -> tl [trmat b; ti h]) (Round2.one_step (zp (arg a 0)) o (int_ (arg a 2))))
let init () = ()
