(* C02 / C03: Hermite normal form; same operations as harness/src/ops/hnf.rs *)
open Conv
open Registry
open Hnf

let ( >>= ) = Base.bind
let () =
  register "floor_div" (fun a -> out ti (floor_div (int_ (arg a 0)) (int_ (arg a 1))));
  (* hnf_with_u A -> [H U k] *)
  register "hnf_with_u" (fun a -> out (fun ((h, u), k) -> tl [timat h; timat u; tnat k]) (hnf_with_u (imat (arg a 0))));
  (* hnf_with_ker A -> [H K] *)
  register "hnf_with_ker" (fun a -> out (fun (h, k) -> tl [timat h; timat k]) (hnf_with_ker (imat (arg a 0))));
  register "hnf_new" (fun a -> out (fun h -> timat (hnf_as_vecs h)) (hnf_new (imat (arg a 0))));
  register "hnf_kernel" (fun a -> out timat (hnf_kernel (imat (arg a 0))));
  (* hnf_new_pair A B -> [HNF::new(A) HNF::new(B) (HNF::new(A) == HNF::new(B))] *)
  register "hnf_new_pair" (fun a ->
      out (fun (x, y) -> tl [timat x; timat y; tbool (hnf_eqb x y)])
        (hnf_new (imat (arg a 0)) >>= fun x -> hnf_new (imat (arg a 1)) >>= fun y -> Base.Done (x, y)));
  (* hnf_union A B -> HNF::union(HNF::new(A), HNF::new(B)) *)
  register "hnf_union" (fun a ->
      out timat
        (hnf_new (imat (arg a 0)) >>= fun x -> hnf_new (imat (arg a 1)) >>= fun y -> hnf_union x y));
  register "hnf_determinant" (fun a -> out ti (hnf_new (imat (arg a 0)) >>= fun x -> hnf_determinant x));
  (* hnf_dim_deg A -> [dim deg] of HNF::new(A) *)
  register "hnf_dim_deg" (fun a -> out (fun x -> tl [tnat (hnf_dim x); tnat (hnf_deg x)]) (hnf_new (imat (arg a 0))))
let () =
  let hu a = hnf_with_u a in
  let enc_hu ((h, u), k) = tl [timat h; timat u; tnat k] in
  let u_ker a =
    hu a >>= fun x -> hnf_with_ker a >>= fun (h2, ker) -> hnf_kernel a >>= fun ker2 ->
    Base.Done (tl [enc_hu x; tl [timat h2; timat ker]; timat ker2]) in
  let rec all_ f = function
    | [] -> Base.Done []
    | x :: t -> f x >>= fun y -> all_ f t >>= fun r -> Base.Done (y :: r) in
  (* hnf_u_ker A -> [[H U k] [H' K] K'] from hnf_with_u, hnf_with_ker, HNF::kernel *)
  register "hnf_u_ker" (fun a -> out (fun t -> t) (u_ker (imat (arg a 0))));
  register "hnf_with_u_batch" (fun a ->
      out tl (all_ (fun m -> hu (imat m) >>= fun x -> Base.Done (enc_hu x)) (list_ (arg a 0))));
  register "hnf_u_ker_batch" (fun a -> out tl (all_ (fun m -> u_ker (imat m)) (list_ (arg a 0))))
let init () = ()
